#!/bin/sh
# Runs the repository's own test suite exactly as shipped: no overlay, no hooks.
export GOPROXY=off GOSUMDB=off
for m in . contrib/gin contrib/log contrib/middleware/opentelemetry contrib/middleware/zipkintracing; do
  (cd /repo/$m && go test -mod=mod -json -vet=off -count=1 -timeout 25m ./...)
done
