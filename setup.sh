#!/bin/sh
# Builds the verification framework from files on disk only (offline).
set -e
cd "$(dirname "$0")/sim"
export GOFLAGS=-mod=mod GOPROXY=off GOSUMDB=off GOTOOLCHAIN=local
mkdir -p ../bin
go1.26.8 build -o ../bin/vsim ./cmd/vsim
go1.26.8 build -o ../bin/instrument ./instrument
# warm the build cache (standard library for go1.26.8, instrumented TarsGo packages)
../bin/vsim build C20 >/dev/null
echo "setup ok"
