#!/usr/bin/env python3
"""Confirms an independently written property-breaking change and runs our check on it.

usage: seeded.py <ID> <A|B> [--src /tmp/sa_out] [--runs N] [--tag 2]

Steps, all in a scratch worktree of /repo's HEAD that is removed afterwards:
  1. demonstration on the unchanged tree           -> must pass
  2. apply the patch, build                         -> must build
  3. demonstration with the change                  -> must fail
  4. existing test suite (./tars/...) with the change -> only the known failure
  5. our check of the property against the changed tree (VERIF_REPO) -> detected or not
Writes /verif/seeded/<ID>-<X>/{patch.diff, demo/, meta.json}.
"""
import json, os, re, shutil, subprocess, sys, tempfile, time

ENV = dict(os.environ, GOFLAGS="-mod=mod", GOPROXY="off", GOSUMDB="off")
KNOWN_FAIL = "TestKetamaHashAlg_Hash"


def sh(cmd, cwd, timeout=1800):
    p = subprocess.run(cmd, shell=True, cwd=cwd, env=ENV, stdout=subprocess.PIPE, stderr=subprocess.STDOUT, timeout=timeout, text=True)
    return p.returncode, p.stdout


def main():
    pid, x = sys.argv[1], sys.argv[2]
    src = "/tmp/sa_out"
    runs = None
    tag = ""
    a = sys.argv[3:]
    while a:
        if a[0] == "--src":
            src = a[1]; a = a[2:]
        elif a[0] == "--runs":
            runs = a[1]; a = a[2:]
        elif a[0] == "--tag":
            tag = a[1]; a = a[2:]
        else:
            a = a[1:]
    sdir = os.path.join(src, pid)
    patch = os.path.join(sdir, x + ".diff")
    demo = os.path.join(sdir, x + "_demo")
    readme = open(os.path.join(demo, "README.txt")).read()
    tmp = tempfile.mkdtemp(prefix="seedchk.")
    w = os.path.join(tmp, "repo")
    subprocess.check_call(["git", "-C", "/repo", "worktree", "add", "-q", "--detach", w, "HEAD"])
    meta = {"property": pid, "change": x, "source": "sub-agent given only the property text and a scratch worktree", "repo_head": subprocess.check_output(["git", "-C", "/repo", "rev-parse", "--short", "HEAD"], text=True).strip()}
    try:
        # demo commands from the README: cp lines and the first go test -run line
        cps, test = [], None
        for line in readme.splitlines():
            l = line.strip()
            l = re.sub(r"^cd \S+ && ", "", l)
            if l.startswith("cp ") and "_demo" in l:
                cps.append(l)
            m = re.search(r"(go test .*-run \S+ \S+(?: \./\S+)*)", l)
            if m and test is None and "-race" not in l:
                test = m.group(1).split(" 2>&1")[0].split(" |")[0]
        runsh = os.path.join(demo, "run.sh")
        if os.path.exists(runsh):
            cps, test = [], "sh %s %s" % (runsh, w)
        elif not cps or not test:
            raise SystemExit("could not find demo commands in README")
        cps = list(dict.fromkeys(cps))

        def put_demo():
            files = []
            for c in cps:
                parts = c.split()
                srcs, dst = parts[1:-1], parts[-1]
                dst = re.sub(r"^(/tmp/s[a-z]_%s|\$W|\$REPO)/?" % pid, "", dst)
                d = os.path.join(w, dst)
                for s_ in srcs:
                    import glob
                    for f in glob.glob(s_):
                        if os.path.isdir(d) or dst.endswith("/"):
                            t = os.path.join(d, os.path.basename(f))
                        else:
                            t = d
                        shutil.copy(f, t)
                        files.append(t)
            return files

        def rm_demo(files):
            for f in files:
                if os.path.exists(f):
                    os.remove(f)

        files = put_demo()
        rc0, out0 = sh(test, w)
        meta["demo_cmd"] = test
        meta["demo_unchanged"] = "pass" if rc0 == 0 and "FAIL" not in out0 else "FAIL"
        rm_demo(files)
        rc, out = sh("git apply " + patch, w)
        if rc != 0:
            meta["error"] = "patch does not apply to current HEAD: " + out[-400:]
            raise RuntimeError(meta["error"])
        rc, out = sh("go build ./tars/... && (cd tars/tools/tars2go && go build -o /dev/null .)", w)
        meta["builds"] = rc == 0
        if rc != 0:
            meta["error"] = out[-600:]
        files = put_demo()
        rc1, out1 = sh(test, w)
        meta["demo_with_change"] = "fail" if (rc1 != 0 or "FAIL" in out1) else "PASS"
        meta["demo_output_with_change"] = "\n".join([l for l in out1.splitlines() if "---" in l or "demo" in l or "FAIL" in l][:12])
        rm_demo(files)
        t0 = time.time()
        rc, out = sh("go test -vet=off -count=1 ./tars/... 2>&1 | grep -E '^(--- FAIL|FAIL|ok)'", w)
        fails = [l for l in out.splitlines() if l.startswith("--- FAIL")]
        meta["suite_failures_with_change"] = fails
        meta["suite_ok"] = all(KNOWN_FAIL in f for f in fails)
        meta["suite_wall_s"] = round(time.time() - t0)
        # our check
        cmd = "/verif/bin/vsim check %s --tier quick" % pid
        if runs:
            cmd += " --runs " + runs
        t0 = time.time()
        env = dict(ENV, VERIF_REPO=w)
        p = subprocess.run(cmd, shell=True, cwd="/verif", env=env, stdout=subprocess.PIPE, stderr=subprocess.STDOUT, text=True)
        meta["check_cmd"] = "VERIF_REPO=<worktree with the change> " + cmd
        meta["check_exit"] = p.returncode
        meta["check_wall_s"] = round(time.time() - t0)
        rules = sorted(set(re.findall(r"rule=(\S+) key=(\S+)", p.stdout)))
        meta["check_rules"] = [r + "/" + k for r, k in rules][:12]
        meta["check_summary"] = [l for l in p.stdout.splitlines() if l.startswith("vsim: " + pid)][-1:]
        meta["detected"] = p.returncode == 1
        if p.returncode == 2:
            meta["check_trouble"] = p.stdout[-1500:]
    finally:
        subprocess.call(["git", "-C", "/repo", "worktree", "remove", "--force", w])
        shutil.rmtree(tmp, ignore_errors=True)
    notes = ""
    try:
        notes = open(os.path.join(sdir, "notes.md")).read()
    except Exception:
        pass
    meta["needs_to_manifest_and_notes"] = "see notes.md (written by the author of the change)"
    out = "/verif/seeded/%s-%s%s" % (pid, x, tag)
    shutil.rmtree(out, ignore_errors=True)
    os.makedirs(out)
    shutil.copy(patch, os.path.join(out, "patch.diff"))
    shutil.copytree(demo, os.path.join(out, "demo"))
    if notes:
        open(os.path.join(out, "notes.md"), "w").write(notes)
    json.dump(meta, open(os.path.join(out, "meta.json"), "w"), indent=1)
    print(json.dumps({k: meta.get(k) for k in ["property", "change", "demo_unchanged", "builds", "demo_with_change", "suite_ok", "detected", "check_exit", "check_rules", "error"]}))


if __name__ == "__main__":
    main()
