#!/bin/bash
# Regression of the machinery itself: every own sensitivity mutant (/verif/mutants) and every
# independently written change (/verif/seeded) is applied to a scratch worktree of /repo's HEAD
# and the quick tier of its property must report a violation. Properties run in parallel
# (each has its own build directory), changes of one property one after the other.
# usage: tools/regress.sh [Cxx ...]     output: one line per change, MISSED lines at the end
cd /verif
PROPS=${@:-C01 C07 C08 C09 C10 C11 C12 C13 C14 C15 C19 C20}
OUT=$(mktemp -d /tmp/regress.XXXXXX)
one() { # prop
  local p=$1
  for f in mutants/$p/*.sh seeded/$p-*/; do
    [ -e "$f" ] || continue
    local name patch
    if [[ "$f" == *.sh ]]; then name=$f; patch=/verif/$f; else
      name=${f%/}; patch=/verif/${f}patch.diff; [ -f /verif/${f}patch.rebased.diff ] && patch=/verif/${f}patch.rebased.diff
      if grep -q '"confirmed": false' /verif/${f}meta.json 2>/dev/null; then echo "SKIP     $name (not confirmed on the current tree)"; continue; fi
      if grep -q '"outside_scope": true' /verif/${f}meta.json 2>/dev/null; then echo "LIMIT    $name (outside the simulated surface, see its meta.json)"; continue; fi
    fi
    local D=$(mktemp -d /tmp/regr.XXXXXX)
    git -C /repo worktree add -q --detach $D/repo HEAD
    local ok=1
    if [[ "$patch" == *.sh ]]; then (cd $D/repo && bash $patch) >/dev/null 2>&1 || ok=0; else git -C $D/repo apply $patch >/dev/null 2>&1 || ok=0; fi
    if [ $ok = 0 ]; then echo "NOAPPLY  $name"; else
      # a change that only shows at thorough-tier run counts says so in its script: "# runs: N"
      local runs=""; [[ "$patch" == *.sh ]] && runs=$(grep -o '^# runs: [0-9]*' $patch | cut -d' ' -f3)
      [[ "$patch" != *.sh ]] && runs=$(grep -o '"regress_runs": [0-9]*' /verif/${f}meta.json 2>/dev/null | grep -o '[0-9]*$')
      VERIF_REPO=$D/repo ./bin/vsim check $p --tier quick ${runs:+--runs $runs} >$D/log 2>&1; rc=$?
      case $rc in
        1) echo "caught   $name  $(grep -a -o 'rule=[^ ]* key=[^ ]*' $D/log | sort -u | head -3 | tr '\n' ' ')";;
        0) echo "MISSED   $name";;
        *) echo "TROUBLE  $name (exit $rc)";;
      esac
    fi
    git -C /repo worktree remove --force $D/repo; rm -rf $D
  done
}
for p in $PROPS; do one $p > $OUT/$p.txt 2>&1 & done
wait
cat $OUT/*.txt
echo "---- not caught:"
grep -h -E "^(MISSED|TROUBLE|NOAPPLY)" $OUT/*.txt || echo "none"
rm -rf $OUT
