#!/bin/bash
# runs the quick tier of every claimed check on /repo's working tree and prints one summary line each
cd /verif
for p in C01 C07 C08 C09 C10 C11 C12 C13 C14 C15 C19 C20; do
  VERIF_SEED=${VERIF_SEED:-1} VERIF_TIER=quick ./bin/vsim check $p --tier quick 2>&1 | grep -E "^VIOLATION|^KNOWN-FINDING|rule=|^vsim: $p|TROUBLE" | cut -c1-400
done
