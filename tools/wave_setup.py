#!/usr/bin/env python3
"""Prepares a wave of independent property-breaking changes: writes the instructions, the
property text and the list of what earlier waves did to /tmp/<prefix>_out, and creates one
scratch worktree of /repo's HEAD per property at /tmp/<prefix>_<ID>.  usage: wave_setup.py <prefix>"""
import sys
PFX=sys.argv[1]
import os
os.makedirs('/tmp/%s_out'%PFX,exist_ok=True); os.chdir('/tmp/%s_out'%PFX)
import json,subprocess,os,glob,re
ins=('''You are helping evaluate a verification tool by seeding realistic defects into a Go codebase (TarsGo, an RPC framework).
Work ONLY inside your git worktree /tmp/%s_<ID> (a checkout of the repository) and write your results ONLY under /tmp/%s_out/<ID>/.
Do not read or write anything under /verif or /repo. The sandbox has no network: always run go with
`GOFLAGS=-mod=mod GOPROXY=off GOSUMDB=off`.

Read the property in /tmp/%s_out/<ID>.property.txt. Produce TWO independent source changes to the repository (change A and change B:
different mechanisms, different code sites) such that each one
 1. BREAKS the property (a user relying on the stated guarantee would be harmed),
 2. still compiles: `cd /tmp/%s_<ID> && go build ./tars/...` (and, if you touch tars/tools/tars2go, `cd tars/tools/tars2go && go build .`),
 3. still passes the existing test suite with the same results as the unchanged tree:
    `cd /tmp/%s_<ID> && go test -vet=off -count=1 ./tars/...`
    (TestKetamaHashAlg_Hash/2.2.2.2 in tars/selector/consistenthash fails already on the unchanged tree: ignore it; the rtimer and rogger tests take ~30s each),
 4. is SUBTLE: it must need something specific to manifest - a particular interleaving of goroutines, a fault or timing at a particular
    point, a multi-step sequence of operations, an unusual input or configuration, or two cooperating sites that each look fine alone.
    Do NOT produce changes that ordinary use would expose at once. Prefer changes that look like plausible programmer mistakes or
    well-meant optimisations/refactorings. Keep each patch small (a few lines). The patch must not contain test hooks.
 5. comes with a demonstration: a Go test file (or files) that FAILS with the change applied and PASSES on the unchanged tree. It may use
    real loopback TCP/UDP on 127.0.0.1, package-internal tests, goroutines, sleeps, many iterations. If the defect needs a rare
    interleaving the demo may force it with sleeps or by manipulating unexported state - only in the demo. The demo must be reliable:
    it has to fail with the change every time it is run (and pass without it every time).

Deliverables in /tmp/%s_out/<ID>/ (exactly this layout, it is processed by a script):
 - A.diff and B.diff: `git diff` against the worktree's HEAD for each change alone (must apply with `git apply` on a clean checkout).
 - A_demo/ and B_demo/: the demonstration *_test.go file(s) plus README.txt. The README must contain, each on its own line,
   the copy command(s) in the form `cp /tmp/%s_out/<ID>/A_demo/<file>_test.go <package dir relative to the repository root, e.g. tars/transport/>`
   and ONE test command in the form `go test -vet=off -count=1 -run <TestName> ./<package dir>/` , plus the observed output with and without the change.
 - notes.md: for each change 5-10 lines: what it breaks, what exactly is needed for it to manifest, why the existing tests do not notice.
Confirm yourself, before finishing, for each change: build OK, existing tests same as unchanged tree, demo fails with the change and passes
without. Keep the worktree clean (git checkout -- . && git clean -fd) between A and B and at the end.
Your final message should summarise the two changes in a few lines each.
''').replace('%s',PFX)
open('INSTRUCTIONS.txt','w').write(ins)
done={}
for d in sorted(glob.glob('/verif/seeded/*/')):
    name=os.path.basename(d.rstrip('/'))
    pid,x=name.split('-')[0],name.split('-')[1]
    notes=''
    try: notes=open(d+'notes.md').read()
    except: pass
    letter=x[0]
    hs=[l.strip('# ').strip() for l in notes.splitlines() if re.match(r'^#+ .*(Change|change)? ?%s\b'%letter,l)]
    done.setdefault(pid,[]).append((hs[0] if hs else '')[:200])
props={}
for l in open('/verif/properties.jsonl'):
    d=json.loads(l); props[d['id']]=d
for pid,heads in done.items():
    p=props[pid]
    open(pid+'.property.txt','w').write("%s: %s\n\n%s\n\nQuantifier: %s\n\nCode the property is about: %s\n" % (pid,p['title'],p['statement'],p['quantifier']['text'],', '.join(p['anchors']['files'])))
    txt="Earlier engineers already made these changes for this property (do something DIFFERENT in mechanism and in code site):\n"+"\n".join(" - "+h for h in heads if h)+"\n\nLook for something the list does not touch yet: another function on the path, another configuration option or API entry point that reaches the same guarantee, another error path, another data type or boundary value, clean-up and accounting code, or a second site that has to cooperate with an existing one. Read the code the property names end to end before choosing.\n"
    open(pid+'.angle.txt','w').write(txt)
    os.makedirs(pid,exist_ok=True)
    subprocess.check_call(['git','-C','/repo','worktree','add','-q','--detach','/tmp/%s_'%PFX+pid,'HEAD'])
print(open('C12.angle.txt').read())