#!/bin/bash
# usage: mut.sh <patch-or-sed-script> <PROP> [runs]   -- applies a patch to a scratch copy of /repo and runs a check against it
set -e
P=$1; PROP=$2; RUNS=${3:-}
D=$(mktemp -d /tmp/mut.XXXXXX)
git -C /repo worktree add -q --detach $D/repo HEAD
trap 'git -C /repo worktree remove --force $D/repo; rm -rf $D' EXIT
if [[ "$P" == *.sh ]]; then (cd $D/repo && bash $P); else git -C $D/repo apply $P; fi
(cd $D/repo && GOFLAGS=-mod=mod GOPROXY=off go build ./tars/... ) || { echo "MUTANT DOES NOT BUILD"; exit 3; }
ARGS=""; [ -n "$RUNS" ] && ARGS="--runs $RUNS"
VERIF_REPO=$D/repo /verif/bin/vsim check $PROP $ARGS 2>&1 | grep -v "^vsim: [0-9]*/" | tail -8
