package c01

// The family variant of C01: the same transparency oracle, driven through
// reflection over the proxies and dispatchers tars2go generated from the seeded
// IDL family (verifsim/idlgen) — the "programs" quantifier of the property.

import (
	"context"
	"errors"
	"fmt"
	"reflect"
	"strings"
	"sync"
	"time"

	"github.com/TarsCloud/TarsGo/tars"
	"github.com/TarsCloud/TarsGo/tars/transport"
	"github.com/TarsCloud/TarsGo/tars/util/current"

	"verifsim/refcodec"
	"verifsim/scen"
	"verifsim/scen/famreg"
	"verifsim/scen/world"
	"verifsim/simnet"
	"verifsim/simrt"
)

func init() { scen.Register("c01f", func() scen.Scenario { return &F{} }) }

type fplan struct {
	nonce   int32
	method  famreg.Method
	oneway  bool
	in      []interface{} // in-parameters by value, in declaration order
	outsIn  []interface{} // values the caller had in its out-parameters
	ret     interface{}
	outs    []interface{}
	reqCtx  map[string]string
	rspCtx  map[string]string
	errCode int32
	errMsg  string
	ran     int
	gotIn   []interface{}
	gotCtx  map[string]string
	done    bool
	cRet    interface{}
	cOuts   []interface{}
	cCtx    map[string]string
	cErr    error
}

type F struct {
	mu    sync.Mutex
	mod   famreg.Module
	plans map[int32]*fplan
	order []*fplan
	done  bool
}

func (s *F) Prepare(c *scen.Ctx) { world.PrepareProcess() }
func (s *F) YieldOff() []string {
	return []string{"tars/util/rtimer", "tars/util/rogger", "tars/selector"}
}
func (s *F) NoStalls() bool                 { return true }
func (s *F) Limits() (time.Duration, int) { return 5 * time.Minute, 3000000 }

const faddr = "10.0.0.9:1500"

func (s *F) handler(ctx context.Context, method string, in []interface{}, outs []interface{}) (interface{}, error) {
	var n int32
	m, _ := current.GetRequestContext(ctx)
	fmt.Sscanf(m["nonce"], "%d", &n)
	s.mu.Lock()
	defer s.mu.Unlock()
	p := s.plans[n]
	if p == nil {
		p = &fplan{nonce: n}
		s.plans[n] = p
	}
	p.ran++
	p.gotIn = in
	p.gotCtx = cloneMap(m)
	if p.rspCtx != nil {
		current.SetResponseContext(ctx, cloneMap(p.rspCtx))
	}
	if p.errCode != 0 {
		return nil, &tars.Error{Code: p.errCode, Message: p.errMsg}
	}
	for i, o := range outs {
		if i < len(p.outs) {
			reflect.ValueOf(o).Elem().Set(reflect.ValueOf(p.outs[i]))
		}
	}
	return p.ret, nil
}

func (s *F) Run(c *scen.Ctx) {
	mods := famreg.All()
	if len(mods) == 0 {
		c.Inconclusive("no generated IDL family in this build")
		return
	}
	s.plans = map[int32]*fplan{}
	s.mod = mods[simrt.Draw(len(mods), "c01f.module")]
	simnet.Cfg.Fragment = simrt.Draw(2, "c01f.frag") == 1
	pool := []int{0, 0, 3}[simrt.Draw(3, "c01f.pool")]
	comm := world.NewClient(world.ClientOpts{InvokeTimeoutMs: 30000})
	conf := &transport.TarsServerConf{Proto: "tcp", Address: faddr, MaxInvoke: int32(pool), QueueCap: 1000,
		AcceptTimeout: 500 * time.Millisecond, IdleTimeout: 600 * time.Second}
	srv, _ := tars.VerifNewServerAny(s.mod.NewDispatcher(), s.mod.NewImp(s.handler), true, conf)
	if err := srv.Listen(); err != nil {
		c.Inconclusive("listen: %v", err)
		return
	}
	simrt.GoNamed("server", func() { srv.Serve() })
	prx := s.mod.NewProxy()
	comm.StringToProxy("App.Srv.FamObj@tcp -h 10.0.0.9 -p 1500 -t 30000", prx.(tars.ProxyPrx))
	ncallers := 1 + simrt.Draw(4, "c01f.callers")
	per := 1 + simrt.Draw(5, "c01f.per")
	c.Describe("module", s.mod.Name)
	c.Describe("methods", len(s.mod.Methods))
	c.Describe("callers", ncallers)
	c.Describe("calls_per_caller", per)
	var nonce int32 = 90000
	next := func() *fplan {
		s.mu.Lock()
		nonce++
		n := nonce
		s.mu.Unlock()
		return s.newPlan(prx, n)
	}
	s.call(prx, next()) // warm-up: the adapter exists before callers race
	var wg sync.WaitGroup
	for ci := 0; ci < ncallers; ci++ {
		wg.Add(1)
		simrt.GoNamed(fmt.Sprintf("caller%d", ci), func() {
			defer wg.Done()
			for k := 0; k < per; k++ {
				s.call(prx, next())
			}
		})
	}
	wg.Wait()
	simrt.Sleep(2 * time.Second)
	s.mu.Lock()
	s.done = true
	s.mu.Unlock()
}

func isOut(m famreg.Method, i int) bool {
	for _, o := range m.Out {
		if o == i {
			return true
		}
	}
	return false
}

func (s *F) newPlan(prx interface{}, n int32) *fplan {
	m := s.mod.Methods[simrt.Draw(len(s.mod.Methods), "c01f.method")]
	p := &fplan{nonce: n, method: m}
	p.oneway = simrt.Draw(8, "c01f.oneway") == 7
	p.reqCtx = genMap("c01f.reqctx", false)
	p.reqCtx["nonce"] = fmt.Sprint(n)
	p.rspCtx = genMap("c01f.rspctx", true)
	if !p.oneway && simrt.Draw(8, "c01f.err") == 7 {
		p.errCode = []int32{2, -1, 77, 100000}[simrt.Draw(4, "c01f.errcode")]
		p.errMsg = fmt.Sprintf("failure-%d", n)
	}
	mt := reflect.ValueOf(prx).MethodByName(m.GoName + "WithContext").Type()
	mk := func(t reflect.Type) interface{} {
		v := reflect.New(t).Elem()
		fill(v, 0)
		return v.Interface()
	}
	for i := 0; i < m.NParams; i++ {
		pt := mt.In(1 + i)
		switch {
		case isOut(m, i):
			p.outsIn = append(p.outsIn, mk(pt.Elem()))
			p.outs = append(p.outs, mk(pt.Elem()))
		case pt.Kind() == reflect.Ptr:
			p.in = append(p.in, mk(pt.Elem()))
		default:
			p.in = append(p.in, mk(pt))
		}
	}
	if m.HasRet {
		p.ret = mk(mt.Out(0))
	}
	s.mu.Lock()
	s.plans[n] = p
	s.order = append(s.order, p)
	s.mu.Unlock()
	return p
}

func (s *F) call(prx interface{}, p *fplan) {
	name := p.method.GoName + "WithContext"
	if p.oneway {
		name = p.method.GoName + "OneWayWithContext"
	}
	mv := reflect.ValueOf(prx).MethodByName(name)
	mt := mv.Type()
	args := []reflect.Value{reflect.ValueOf(context.Background())}
	var outPtrs []reflect.Value
	ii, oi := 0, 0
	for i := 0; i < p.method.NParams; i++ {
		pt := mt.In(1 + i)
		switch {
		case isOut(p.method, i):
			ptr := reflect.New(pt.Elem())
			ptr.Elem().Set(reflect.ValueOf(p.outsIn[oi]))
			oi++
			outPtrs = append(outPtrs, ptr)
			args = append(args, ptr)
		case pt.Kind() == reflect.Ptr:
			ptr := reflect.New(pt.Elem())
			ptr.Elem().Set(reflect.ValueOf(p.in[ii]))
			ii++
			args = append(args, ptr)
		default:
			args = append(args, reflect.ValueOf(p.in[ii]))
			ii++
		}
	}
	cctx := cloneMap(p.reqCtx)
	args = append(args, reflect.ValueOf(cctx))
	res := mv.Call(args)
	var err error
	if e := res[len(res)-1].Interface(); e != nil {
		err = e.(error)
	}
	s.mu.Lock()
	p.done, p.cErr, p.cCtx = true, err, cctx
	if p.method.HasRet {
		p.cRet = res[0].Interface()
	}
	for _, o := range outPtrs {
		p.cOuts = append(p.cOuts, o.Elem().Interface())
	}
	s.mu.Unlock()
	simrt.Sleep(0)
}

func (s *F) Check(c *scen.Ctx, res *simrt.Result) {
	s.mu.Lock()
	defer s.mu.Unlock()
	if s.mod.Name == "" {
		return
	}
	if !s.done {
		if res.Status != "ok" {
			c.Inconclusive("run ended (%s)", res.Status)
		}
		return
	}
	wireID := map[int32]int32{}
	rspIDs := map[int32]int{}
	for _, pr := range simnet.Pairs() {
		if pr.Addr != faddr {
			continue
		}
		frames, _, _ := refcodec.SplitFrames(pr.C2S.Bytes(), 0)
		for _, f := range frames {
			if q, err := refcodec.DecodeRequest(f); err == nil {
				var n int32
				fmt.Sscanf(q.Context["nonce"], "%d", &n)
				wireID[n] = q.RequestID
			} else {
				c.Fail("C01", "undecodable-request", "family", "module %s: the proxy put a frame on the wire that the reference decoder rejects: %v", s.mod.Name, err)
			}
		}
		rf, _, _ := refcodec.SplitFrames(pr.S2C.Bytes(), 0)
		for _, f := range rf {
			if r, err := refcodec.DecodeResponse(f); err == nil {
				rspIDs[r.RequestID]++
			}
		}
	}
	for _, p := range s.order {
		key := "family"
		what := fmt.Sprintf("module %s method %s (call %d)", s.mod.Name, p.method.Name, p.nonce)
		if !p.done {
			c.Fail("C01", "call-never-returned", key, "%s did not return", what)
			continue
		}
		if p.ran != 1 {
			c.Fail("C01", "execution-count", key, "%s: the implementation ran %d times (one-way=%v)", what, p.ran, p.oneway)
			continue
		}
		for i := range p.in {
			if i < len(p.gotIn) {
				if d := diffAny(p.in[i], p.gotIn[i], fmt.Sprintf("in%d", i)); d != "" {
					c.Fail("C01", "argument-changed", key, "%s: the implementation received a different argument: %s", what, d)
				}
			}
		}
		if !mapsEq(p.reqCtx, p.gotCtx) {
			c.Fail("C01", "request-context-changed", key, "%s: caller passed context %v, the implementation saw %v", what, p.reqCtx, p.gotCtx)
		}
		if p.oneway {
			if id, ok := wireID[p.nonce]; ok && rspIDs[id] > 0 {
				c.Fail("C01", "oneway-replied", key, "%s: one-way call produced %d response frame(s)", what, rspIDs[id])
			}
			continue
		}
		if p.errCode != 0 {
			var te *tars.Error
			if p.cErr == nil {
				c.Fail("C01", "error-lost", key, "%s: the implementation failed with code %d, the caller got success", what, p.errCode)
			} else if !errors.As(p.cErr, &te) || te.Code != p.errCode || te.Message != p.errMsg {
				c.Fail("C01", "error-changed", key, "%s: the implementation failed with code %d %q, the caller got %v", what, p.errCode, p.errMsg, p.cErr)
			}
			continue
		}
		if p.cErr != nil {
			c.Fail("C01", "unexpected-error", key, "%s failed although the implementation succeeded: %v", what, trunc(strings.ReplaceAll(p.cErr.Error(), "\n", " ")))
			continue
		}
		if p.method.HasRet {
			if d := diffAny(p.ret, p.cRet, "return"); d != "" {
				c.Fail("C01", "return-changed", key, "%s: %s", what, d)
			}
		}
		for i := range p.outs {
			if d := diffAny(p.outs[i], p.cOuts[i], fmt.Sprintf("out%d", i)); d != "" {
				c.Fail("C01", "out-parameter-changed", key, "%s: %s", what, d)
			}
		}
		if !mapsEq(p.rspCtx, p.cCtx) {
			c.Fail("C01", "response-context-changed", key, "%s: the implementation set response context %v, the caller's map holds %v", what, p.rspCtx, p.cCtx)
		}
	}
	c.Count("probe.family_calls", len(s.order))
}
