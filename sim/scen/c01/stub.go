package c01
