// Package c01: end-to-end call transparency through the tars2go-generated
// proxy and dispatcher.
package c01

import (
	"context"
	"errors"
	"fmt"
	"math"
	"reflect"
	"sort"
	"strings"
	"sync"
	"time"

	"github.com/TarsCloud/TarsGo/tars"
	"github.com/TarsCloud/TarsGo/tars/protocol/res/requestf"
	"github.com/TarsCloud/TarsGo/tars/transport"
	"github.com/TarsCloud/TarsGo/tars/util/current"

	"verifsim/gen/VerifAll"
	"verifsim/refcodec"
	"verifsim/scen"
	"verifsim/scen/world"
	"verifsim/simnet"
	"verifsim/simrt"
)

func init() { scen.Register("c01", func() scen.Scenario { return &S{} }) }

// plan is what the servant must produce for one call and what it observed.
type plan struct {
	nonce     int32
	method    string
	oneway    bool
	// inputs as passed by the caller
	in        []interface{}
	reqCtx    map[string]string
	reqStatus map[string]string
	ctxMode   int // 0 no maps, 1 context, 2 context+status
	// outputs the servant will produce
	ret       interface{}
	outs      []interface{}
	rspCtx    map[string]string
	rspStatus map[string]string
	errCode   int32 // 0 none
	errPlain  bool
	errMsg    string
	// observations
	ran       int
	gotIn     []interface{}
	gotCtx    map[string]string
	gotStatus map[string]string
	caller    int
	startStep int
	endStep   int
	done      bool
	cRet      interface{}
	cOuts     []interface{}
	cCtx      map[string]string
	cStatus   map[string]string
	cErr      error
}

type S struct {
	mu      sync.Mutex
	shortTO bool
	plans   map[int32]*plan
	order   []*plan
	filtLog map[int32][]string // request id -> filter names in order of entry (client side)
	sfLog   map[int32][]string // server side
	cfFam   int
	sfFam   int
	cfNames []string
	// a client middleware registered after lateAfter calls have finished (0 = none), between steps lateFrom and lateDone
	lateAfter, finishedCalls int
	lateFrom, lateDone       int
	sfNames []string
	pool    int
	done    bool
}

func (s *S) Prepare(c *scen.Ctx) { world.PrepareProcess() }
func (s *S) YieldOff() []string {
	return []string{"tars/util/rtimer", "tars/util/rogger", "tars/selector"}
}
func (s *S) NoStalls() bool                 { return true }
func (s *S) Limits() (time.Duration, int) { return 5 * time.Minute, 3000000 }

const addr = "10.0.0.9:1400"

// ---------- value generation (boundary-dense, by reflection over the generated types) ----------

var (
	i8s  = []int64{0, 1, -1, 127, -128, 42}
	i16s = []int64{0, 1, -1, 32767, -32768, 255, 256, -129}
	i32s = []int64{0, 1, -1, math.MaxInt32, math.MinInt32, 65535, 65536, -32769, 128}
	i64s = []int64{0, 1, -1, math.MaxInt64, math.MinInt64, 1 << 32, -(1 << 31) - 1, math.MaxInt32 + 1}
	u8s  = []uint64{0, 1, 127, 128, 255}
	u16s = []uint64{0, 255, 256, 32767, 32768, 65535}
	u32s = []uint64{0, 65535, 65536, math.MaxInt32, math.MaxInt32 + 1, math.MaxUint32}
	f32s = []uint32{0, 0x80000000, 0x3f800000, 0x7f800000, 0xff800000, 0x7fc00000, 0x7fc00001, 0xffc12345, 1, 0x7f7fffff, 0x3eaaaaab}
	f64s = []uint64{0, 0x8000000000000000, 0x3ff0000000000000, 0x7ff0000000000000, 0xfff0000000000000, 0x7ff8000000000000, 0x7ff8000000000001, 0xfff8dead0000beef, 1, 0x7fefffffffffffff, 0x3fd5555555555555}
	strs = []string{"", "a", "hello, wörld", "zero\x00inside", "日本語テキスト"}
	lens = []int{0, 1, 2, 5, 255, 256, 300, 4095, 4096, 4097, 9000}
)

func genString(limit int) string {
	switch k := simrt.Draw(len(strs)+3, "c01.str"); {
	case k < len(strs):
		return strs[k]
	default:
		n := lens[simrt.Draw(len(lens), "c01.strlen")]
		if n > limit {
			n = limit
		}
		b := make([]byte, n)
		for i := range b {
			b[i] = byte('a' + (i*7+n)%26)
		}
		return string(b)
	}
}

// fill sets v to a tape-drawn value of its type.
func fill(v reflect.Value, depth int) {
	switch v.Kind() {
	case reflect.Bool:
		v.SetBool(simrt.Draw(2, "c01.bool") == 1)
	case reflect.Int8:
		v.SetInt(i8s[simrt.Draw(len(i8s), "c01.i8")])
	case reflect.Int16:
		v.SetInt(i16s[simrt.Draw(len(i16s), "c01.i16")])
	case reflect.Int32:
		v.SetInt(i32s[simrt.Draw(len(i32s), "c01.i32")])
	case reflect.Int64:
		v.SetInt(i64s[simrt.Draw(len(i64s), "c01.i64")])
	case reflect.Uint8:
		v.SetUint(u8s[simrt.Draw(len(u8s), "c01.u8")])
	case reflect.Uint16:
		v.SetUint(u16s[simrt.Draw(len(u16s), "c01.u16")])
	case reflect.Uint32:
		v.SetUint(u32s[simrt.Draw(len(u32s), "c01.u32")])
	case reflect.Float32:
		*(v.Addr().Interface().(*float32)) = math.Float32frombits(f32s[simrt.Draw(len(f32s), "c01.f32")])
	case reflect.Float64:
		*(v.Addr().Interface().(*float64)) = math.Float64frombits(f64s[simrt.Draw(len(f64s), "c01.f64")])
	case reflect.String:
		v.SetString(genString(10000))
	case reflect.Slice:
		n := 0
		if depth < 3 {
			if v.Type().Elem().Kind() == reflect.Int8 || v.Type().Elem().Kind() == reflect.Uint8 {
				n = lens[simrt.Draw(len(lens), "c01.blen")]
				if simrt.Draw(40, "c01.big") == 39 {
					n = 70000
				}
			} else {
				n = []int{0, 1, 2, 3, 7}[simrt.Draw(5, "c01.slen")]
			}
		}
		if n == 0 && simrt.Draw(2, "c01.nil") == 0 {
			v.Set(reflect.Zero(v.Type()))
			return
		}
		sl := reflect.MakeSlice(v.Type(), n, n)
		if v.Type().Elem().Kind() == reflect.Int8 {
			for i := 0; i < n; i++ {
				sl.Index(i).SetInt(int64(int8(i*31 + n)))
			}
		} else {
			for i := 0; i < n; i++ {
				fill(sl.Index(i), depth+1)
			}
		}
		v.Set(sl)
	case reflect.Array:
		for i := 0; i < v.Len(); i++ {
			fill(v.Index(i), depth+1)
		}
	case reflect.Map:
		n := 0
		if depth < 3 {
			n = []int{0, 1, 2, 4}[simrt.Draw(4, "c01.mlen")]
		}
		if n == 0 && simrt.Draw(2, "c01.nil") == 0 {
			v.Set(reflect.Zero(v.Type()))
			return
		}
		m := reflect.MakeMapWithSize(v.Type(), n)
		for i := 0; i < n; i++ {
			k := reflect.New(v.Type().Key()).Elem()
			if k.Kind() == reflect.String {
				k.SetString(fmt.Sprintf("k%d-%s", i, genString(40)))
			} else {
				fill(k, depth+1)
			}
			e := reflect.New(v.Type().Elem()).Elem()
			fill(e, depth+1)
			m.SetMapIndex(k, e)
		}
		v.Set(m)
	case reflect.Struct:
		for i := 0; i < v.NumField(); i++ {
			if v.Field(i).CanSet() {
				fill(v.Field(i), depth+1)
			}
		}
	case reflect.Ptr:
		v.Set(reflect.New(v.Type().Elem()))
		fill(v.Elem(), depth)
	}
}

// diff returns the path of the first difference (floats by bit pattern; nil and empty containers identified).
func diff(a, b reflect.Value, path string) string {
	if a.Kind() == reflect.Interface || a.Kind() == reflect.Ptr {
		if a.IsNil() != b.IsNil() {
			return path + ": nil vs non-nil"
		}
		if a.IsNil() {
			return ""
		}
		return diff(a.Elem(), b.Elem(), path)
	}
	if a.Type() != b.Type() {
		return fmt.Sprintf("%s: type %s vs %s", path, a.Type(), b.Type())
	}
	switch a.Kind() {
	case reflect.Float32:
		x, y := math.Float32bits(float32(a.Float())), math.Float32bits(float32(b.Float()))
		// (an optional struct member at its default 0 is not transmitted: -0 and +0 are one value
		// there, and only there; parameters, results and container elements keep their sign bit)
		if x != y && !(structField(path) && a.Float() == 0 && b.Float() == 0) {
			return fmt.Sprintf("%s: float32 bits %08x vs %08x", path, x, y)
		}
	case reflect.Float64:
		x, y := math.Float64bits(a.Float()), math.Float64bits(b.Float())
		if x != y && !(structField(path) && a.Float() == 0 && b.Float() == 0) {
			return fmt.Sprintf("%s: float64 bits %016x vs %016x", path, x, y)
		}
	case reflect.Slice, reflect.Array:
		if a.Len() != b.Len() {
			return fmt.Sprintf("%s: length %d vs %d", path, a.Len(), b.Len())
		}
		for i := 0; i < a.Len(); i++ {
			if d := diff(a.Index(i), b.Index(i), fmt.Sprintf("%s[%d]", path, i)); d != "" {
				return d
			}
		}
	case reflect.Map:
		if a.Len() != b.Len() {
			return fmt.Sprintf("%s: map size %d vs %d", path, a.Len(), b.Len())
		}
		for _, k := range a.MapKeys() {
			bv := b.MapIndex(k)
			if !bv.IsValid() {
				return fmt.Sprintf("%s: key %v missing", path, k)
			}
			if d := diff(a.MapIndex(k), bv, fmt.Sprintf("%s[%v]", path, k)); d != "" {
				return d
			}
		}
	case reflect.Struct:
		for i := 0; i < a.NumField(); i++ {
			if a.Type().Field(i).PkgPath != "" {
				continue
			}
			if d := diff(a.Field(i), b.Field(i), path+"."+a.Type().Field(i).Name); d != "" {
				return d
			}
		}
	default:
		if !reflect.DeepEqual(a.Interface(), b.Interface()) {
			s1, s2 := fmt.Sprintf("%v", a.Interface()), fmt.Sprintf("%v", b.Interface())
			if len(s1) > 40 {
				s1 = s1[:40] + "..."
			}
			if len(s2) > 40 {
				s2 = s2[:40] + "..."
			}
			return fmt.Sprintf("%s: %s vs %s", path, s1, s2)
		}
	}
	return ""
}

// structField: the value at path is a member of a struct (its last path step is ".Name").
func structField(path string) bool {
	i := strings.LastIndexAny(path, ".[")
	return i >= 0 && path[i] == '.'
}

func diffAny(a, b interface{}, path string) string {
	return diff(reflect.ValueOf(&a).Elem(), reflect.ValueOf(&b).Elem(), path)
}

func mapsEq(a, b map[string]string) bool {
	if len(a) != len(b) {
		return false
	}
	for k, v := range a {
		if w, ok := b[k]; !ok || w != v {
			return false
		}
	}
	return true
}

func genMap(label string, allowNil bool) map[string]string {
	switch simrt.Draw(4, label) {
	case 0:
		if allowNil {
			return nil
		}
		return map[string]string{}
	case 1:
		return map[string]string{}
	case 2:
		return map[string]string{"k": genString(300)}
	default:
		return map[string]string{"alpha": "1", "": "empty-key", "beta": genString(1000), "uni": "ключ"}
	}
}

func cloneMap(m map[string]string) map[string]string {
	if m == nil {
		return nil
	}
	c := map[string]string{}
	for k, v := range m {
		c[k] = v
	}
	return c
}

// ---------- servant ----------

type imp struct{ s *S }

// enter records what the servant received and returns the plan.
func (i *imp) enter(ctx context.Context, nonce int32, in ...interface{}) *plan {
	i.s.mu.Lock()
	defer i.s.mu.Unlock()
	p := i.s.plans[nonce]
	if p == nil {
		p = &plan{nonce: nonce, method: "?"}
		i.s.plans[nonce] = p
	}
	p.ran++
	p.gotIn = in
	if m, ok := current.GetRequestContext(ctx); ok {
		p.gotCtx = cloneMap(m)
	}
	if m, ok := current.GetRequestStatus(ctx); ok {
		p.gotStatus = cloneMap(m)
	}
	if p.rspCtx != nil {
		current.SetResponseContext(ctx, cloneMap(p.rspCtx))
	}
	if p.rspStatus != nil {
		current.SetResponseStatus(ctx, cloneMap(p.rspStatus))
	}
	return p
}

func (p *plan) err() error {
	if p.errCode == 0 {
		return nil
	}
	if p.errPlain {
		return errors.New(p.errMsg)
	}
	return &tars.Error{Code: p.errCode, Message: p.errMsg}
}

func nonceOfString(s string) int32 {
	var n int32
	fmt.Sscanf(s, "n%d|", &n)
	return n
}

func (i *imp) Ping(ctx context.Context) error {
	var n int32
	if m, ok := current.GetRequestContext(ctx); ok {
		fmt.Sscanf(m["nonce"], "%d", &n)
	}
	p := i.enter(ctx, n)
	return p.err()
}
func (i *imp) AddInts(ctx context.Context, a int32, b int64, sum *int64) (int32, error) {
	p := i.enter(ctx, a, a, b)
	if len(p.outs) == 1 {
		*sum = p.outs[0].(int64)
	}
	r, _ := p.ret.(int32)
	return r, p.err()
}
func (i *imp) EchoString(ctx context.Context, s string, upper *string) (string, error) {
	p := i.enter(ctx, nonceOfString(s), s)
	if len(p.outs) == 1 {
		*upper = p.outs[0].(string)
	}
	r, _ := p.ret.(string)
	return r, p.err()
}
func (i *imp) Flags(ctx context.Context, b bool, i8 int8, i16 int16, u8 uint8, u16 uint16, u32 uint32, f32 float32, f64 float64, f64Out *float64, f32Out *float32, u32Out *uint32) (bool, error) {
	p := i.enter(ctx, int32(u32), b, i8, i16, u8, u16, u32, f32, f64)
	if len(p.outs) == 3 {
		*f64Out, *f32Out, *u32Out = p.outs[0].(float64), p.outs[1].(float32), p.outs[2].(uint32)
	}
	r, _ := p.ret.(bool)
	return r, p.err()
}
func (i *imp) EchoBytes(ctx context.Context, data []int8, lens *[]int32) ([]int8, error) {
	var n int32
	if len(data) >= 4 {
		n = int32(uint8(data[0]))<<24 | int32(uint8(data[1]))<<16 | int32(uint8(data[2]))<<8 | int32(uint8(data[3]))
	}
	p := i.enter(ctx, n, data)
	if len(p.outs) == 1 {
		*lens = p.outs[0].([]int32)
	}
	r, _ := p.ret.([]int8)
	return r, p.err()
}
func (i *imp) EchoMap(ctx context.Context, m map[string]string, vv [][]string, vvOut *[][]string) (map[string]string, error) {
	var n int32
	fmt.Sscanf(m["__nonce"], "%d", &n)
	p := i.enter(ctx, n, m, vv)
	if len(p.outs) == 1 {
		*vvOut = p.outs[0].([][]string)
	}
	r, _ := p.ret.(map[string]string)
	return r, p.err()
}
func (i *imp) EchoBig(ctx context.Context, big *VerifAll.Big, c VerifAll.Color, bigOut *VerifAll.Big, cOut *VerifAll.Color) (VerifAll.Big, error) {
	p := i.enter(ctx, big.I32, *big, c)
	if len(p.outs) == 2 {
		*bigOut, *cOut = p.outs[0].(VerifAll.Big), p.outs[1].(VerifAll.Color)
	}
	r, _ := p.ret.(VerifAll.Big)
	return r, p.err()
}
func (i *imp) Fail(ctx context.Context, code int32, msg string) (int32, error) {
	p := i.enter(ctx, nonceOfString(msg), code, msg)
	r, _ := p.ret.(int32)
	return r, p.err()
}
func (i *imp) Slow(ctx context.Context, millis int32, waited *int32) (int32, error) {
	return millis, nil
}
func (i *imp) OneWayNote(ctx context.Context, note string, inner *VerifAll.Inner) error {
	p := i.enter(ctx, nonceOfString(note), note, *inner)
	return p.err()
}

// ---------- filters ----------

func (s *S) logC(id int32, name string) {
	s.mu.Lock()
	s.filtLog[id] = append(s.filtLog[id], name)
	s.mu.Unlock()
}
func (s *S) logS(id int32, name string) {
	s.mu.Lock()
	s.sfLog[id] = append(s.sfLog[id], name)
	s.mu.Unlock()
}

func (s *S) installFilters(c *scen.Ctx) {
	s.cfFam = simrt.Draw(4, "c01.cfilter")
	s.sfFam = simrt.Draw(4, "c01.sfilter")
	switch s.cfFam {
	case 1:
		tars.RegisterClientFilter(func(ctx context.Context, msg *tars.Message, invoke tars.Invoke, timeout time.Duration) error {
			s.logC(msg.Req.IRequestId, "cf")
			return invoke(ctx, msg, timeout)
		})
		s.cfNames = []string{"cf"}
	case 2:
		n := 1 + simrt.Draw(2, "c01.npre")
		for i := 0; i < n; i++ {
			name := fmt.Sprintf("pre%d", i)
			tars.RegisterPreClientFilter(func(ctx context.Context, msg *tars.Message, invoke tars.Invoke, timeout time.Duration) error {
				s.logC(msg.Req.IRequestId, name)
				return nil
			})
			s.cfNames = append(s.cfNames, name)
		}
		m := 1 + simrt.Draw(2, "c01.npost")
		for i := 0; i < m; i++ {
			name := fmt.Sprintf("post%d", i)
			tars.RegisterPostClientFilter(func(ctx context.Context, msg *tars.Message, invoke tars.Invoke, timeout time.Duration) error {
				s.logC(msg.Req.IRequestId, name)
				return nil
			})
			s.cfNames = append(s.cfNames, name)
		}
	case 3:
		n := 1 + simrt.Draw(3, "c01.nmw")
		for i := 0; i < n; i++ {
			name := fmt.Sprintf("mw%d", i)
			tars.UseClientFilterMiddleware(func(next tars.ClientFilter) tars.ClientFilter {
				return func(ctx context.Context, msg *tars.Message, invoke tars.Invoke, timeout time.Duration) error {
					s.logC(msg.Req.IRequestId, name)
					return next(ctx, msg, invoke, timeout)
				}
			})
			s.cfNames = append(s.cfNames, name)
		}
	}
	switch s.sfFam {
	case 1:
		tars.RegisterServerFilter(func(ctx context.Context, d tars.Dispatch, f interface{}, req *requestf.RequestPacket, resp *requestf.ResponsePacket, withContext bool) error {
			s.logS(req.IRequestId, "sf")
			return d(ctx, f, req, resp, withContext)
		})
		s.sfNames = []string{"sf"}
	case 2:
		n := 1 + simrt.Draw(2, "c01.nspre")
		for i := 0; i < n; i++ {
			name := fmt.Sprintf("spre%d", i)
			tars.RegisterPreServerFilter(func(ctx context.Context, d tars.Dispatch, f interface{}, req *requestf.RequestPacket, resp *requestf.ResponsePacket, withContext bool) error {
				s.logS(req.IRequestId, name)
				return nil
			})
			s.sfNames = append(s.sfNames, name)
		}
		m := 1 + simrt.Draw(2, "c01.nspost")
		for i := 0; i < m; i++ {
			name := fmt.Sprintf("spost%d", i)
			tars.RegisterPostServerFilter(func(ctx context.Context, d tars.Dispatch, f interface{}, req *requestf.RequestPacket, resp *requestf.ResponsePacket, withContext bool) error {
				s.logS(req.IRequestId, name)
				return nil
			})
			s.sfNames = append(s.sfNames, name)
		}
	case 3:
		n := 1 + simrt.Draw(3, "c01.nsmw")
		for i := 0; i < n; i++ {
			name := fmt.Sprintf("smw%d", i)
			tars.UseServerFilterMiddleware(func(next tars.ServerFilter) tars.ServerFilter {
				return func(ctx context.Context, d tars.Dispatch, f interface{}, req *requestf.RequestPacket, resp *requestf.ResponsePacket, withContext bool) error {
					s.logS(req.IRequestId, name)
					return next(ctx, d, f, req, resp, withContext)
				}
			})
			s.sfNames = append(s.sfNames, name)
		}
	}
	c.Describe("client_filters", s.cfNames)
	c.Describe("server_filters", s.sfNames)
}

// afterCall: bookkeeping at the end of a call; after a drawn number of finished calls one more
// client middleware is registered. A filter registered while the application is already
// making calls is a registered filter: calls that start afterwards pass through it.
func (s *S) afterCall(c *scen.Ctx, p *plan) {
	s.mu.Lock()
	p.endStep = simrt.Step()
	s.finishedCalls++
	reg := s.lateAfter > 0 && s.finishedCalls == s.lateAfter
	if reg {
		s.lateFrom = simrt.Step()
	}
	s.mu.Unlock()
	if !reg {
		return
	}
	c.Count("probe.client_middleware_registered_after_first_calls", 1)
	tars.UseClientFilterMiddleware(func(next tars.ClientFilter) tars.ClientFilter {
		return func(ctx context.Context, msg *tars.Message, invoke tars.Invoke, timeout time.Duration) error {
			s.logC(msg.Req.IRequestId, "late")
			return next(ctx, msg, invoke, timeout)
		}
	})
	s.mu.Lock()
	s.lateDone = simrt.Step()
	s.mu.Unlock()
}

// ---------- workload ----------

func (s *S) Run(c *scen.Ctx) {
	s.plans = map[int32]*plan{}
	s.filtLog = map[int32][]string{}
	s.sfLog = map[int32][]string{}
	simnet.Cfg.Fragment = simrt.Draw(2, "c01.frag") == 1
	simnet.Cfg.Delay = simrt.Draw(3, "c01.delay") == 2
	s.pool = []int{0, 0, 2, 5}[simrt.Draw(4, "c01.pool")]
	// a short client idle time-out: connections are closed between bursts of calls and opened again
	idle := []time.Duration{0, 0, time.Second}[simrt.Draw(3, "c01.clientidle")]
	c.Describe("client_idle_timeout", idle.String())
	ncallers := 1 + simrt.Draw(8, "c01.callers")
	per := 1 + simrt.Draw(6, "c01.per")
	// an admission limit (objqueuemax) that just fits the application's concurrency: with n callers
	// a proxy never has more than n calls in flight, so no call may be refused as "queue full"
	var qmax int32
	if simrt.Draw(2, "c01.objqueuemax") == 1 {
		qmax = int32(ncallers)
	}
	c.Describe("obj_queue_max", qmax)
	// variant "shortto": call time-outs below one second and calls at every phase of the second,
	// with nothing in the run that takes simulated time (no delivery delays, no stalls): no call
	// may run into its time-out, on either side
	invokeTO := 30000
	s.shortTO = c.Param("shortto", "") == "on"
	if s.shortTO {
		invokeTO = []int{300, 450, 700, 900}[simrt.Draw(4, "c01.shortto")]
		simnet.Cfg.Delay = false
		c.Count("probe.call_timeouts_below_one_second", 1)
	}
	c.Describe("call_timeout_ms", invokeTO)
	comm := world.NewClient(world.ClientOpts{InvokeTimeoutMs: invokeTO, IdleTimeout: idle, ObjQueueMax: qmax})
	s.installFilters(c)
	conf := &transport.TarsServerConf{Proto: "tcp", Address: addr, MaxInvoke: int32(s.pool), QueueCap: 1000,
		AcceptTimeout: 500 * time.Millisecond, IdleTimeout: 600 * time.Second}
	srv, _ := tars.VerifNewServer(new(VerifAll.Echo), &imp{s}, true, conf)
	if err := srv.Listen(); err != nil {
		c.Inconclusive("listen: %v", err)
		return
	}
	simrt.GoNamed("server", func() { srv.Serve() })
	prx := new(VerifAll.Echo)
	comm.StringToProxy("App.Srv.EchoObj@tcp -h 10.0.0.9 -p 1400 -t 30000", prx)
	// the application may hold several proxy objects for the servant (StringToProxy in more
	// than one place): they share the endpoint manager, its adapters and connections
	prxs := []*VerifAll.Echo{prx}
	if simrt.Draw(3, "c01.proxies") == 2 {
		p2 := new(VerifAll.Echo)
		comm.StringToProxy("App.Srv.EchoObj@tcp -h 10.0.0.9 -p 1400 -t 30000", p2)
		prxs = append(prxs, p2)
	}
	c.Describe("proxy_objects", len(prxs))
	c.Describe("callers", ncallers)
	c.Describe("calls_per_caller", per)
	c.Describe("server_pool", s.pool)
	if (s.cfFam == 3 || s.cfFam == 0) && simrt.Draw(2, "c01.latemw") == 1 {
		s.lateAfter = 1 + simrt.Draw(1+ncallers*per/2, "c01.lateafter")
	}
	var nonce int32 = 70000
	var wg sync.WaitGroup
	// warm-up: creates the adapter before concurrent callers start
	{
		nonce++
		p := s.newPlan(c, nonce, 0, 1)
		s.call(c, prx, p)
	}
	for ci := 0; ci < ncallers; ci++ {
		ci := ci
		wg.Add(1)
		simrt.GoNamed(fmt.Sprintf("caller%d", ci), func() {
			defer wg.Done()
			for k := 0; k < per; k++ {
				s.mu.Lock()
				nonce++
				n := nonce
				s.mu.Unlock()
				p := s.newPlan(c, n, ci, -1)
				if s.shortTO {
					simrt.Sleep(time.Duration(simrt.Draw(1000, "c01.phase")) * time.Millisecond)
				}
				s.call(c, prxs[ci%len(prxs)], p)
			}
		})
	}
	wg.Wait()
	if idle > 0 {
		// the connection goes idle and is closed by the client; then one more call, and idle again
		simrt.Sleep(idle + 1500*time.Millisecond)
		s.mu.Lock()
		nonce++
		n := nonce
		s.mu.Unlock()
		s.call(c, prxs[0], s.newPlan(c, n, 0, -1))
		simrt.Sleep(idle + 1500*time.Millisecond)
		c.Count("probe.calls_around_client_idle_close", 1)
	}
	simrt.Sleep(2 * time.Second) // one-way calls reach the servant
	s.mu.Lock()
	s.done = true
	s.mu.Unlock()
}

var methods = []string{"ping", "addInts", "echoString", "flags", "echoBytes", "echoMap", "echoBig", "fail", "oneWayNote", "addIntsOneWay"}

func (s *S) newPlan(c *scen.Ctx, n int32, caller int, forceMethod int) *plan {
	p := &plan{nonce: n, caller: caller}
	mi := forceMethod
	if mi < 0 {
		mi = simrt.Draw(len(methods), "c01.method")
	}
	p.method = methods[mi]
	p.ctxMode = simrt.Draw(3, "c01.ctxmode")
	if p.method == "ping" && p.ctxMode == 0 {
		p.ctxMode = 1
	}
	if p.method == "oneWayNote" || p.method == "addIntsOneWay" {
		p.oneway = true
		if p.ctxMode == 0 {
			p.ctxMode = 1 // the wire id of a one-way call is found through its context
		}
	}
	if p.ctxMode >= 1 {
		p.reqCtx = genMap("c01.reqctx", false)
		p.reqCtx["nonce"] = fmt.Sprint(n)
		p.rspCtx = genMap("c01.rspctx", true)
	}
	if p.ctxMode == 2 {
		p.reqStatus = genMap("c01.reqstatus", false)
		p.rspStatus = genMap("c01.rspstatus", true)
	}
	// outcome
	if p.method == "fail" || (!p.oneway && simrt.Draw(8, "c01.err") == 7) {
		p.errCode = []int32{2, -1, 77, 1, 100000, -99}[simrt.Draw(6, "c01.errcode")]
		p.errPlain = simrt.Draw(3, "c01.errplain") == 2
		if p.errPlain {
			p.errCode = 1
		}
		p.errMsg = fmt.Sprintf("failure-%d-%s", n, genString(200))
	}
	mk := func(x interface{}) interface{} {
		v := reflect.New(reflect.TypeOf(x)).Elem()
		fill(v, 0)
		return v.Interface()
	}
	switch p.method {
	case "addInts", "addIntsOneWay":
		p.in = []interface{}{n, mk(int64(0))}
		p.ret, p.outs = mk(int32(0)), []interface{}{mk(int64(0))}
	case "echoString":
		p.in = []interface{}{fmt.Sprintf("n%d|%s", n, genString(70000))}
		p.ret, p.outs = mk(""), []interface{}{mk("")}
	case "flags":
		p.in = []interface{}{mk(false), mk(int8(0)), mk(int16(0)), mk(uint8(0)), mk(uint16(0)), uint32(n), mk(float32(0)), mk(float64(0))}
		p.ret, p.outs = mk(false), []interface{}{mk(float64(0)), mk(float32(0)), mk(uint32(0))}
	case "echoBytes":
		d := mk([]int8{}).([]int8)
		d = append([]int8{int8(n >> 24), int8(n >> 16), int8(n >> 8), int8(n)}, d...)
		p.in = []interface{}{d}
		p.ret, p.outs = mk([]int8{}), []interface{}{mk([]int32{})}
	case "echoMap":
		m := mk(map[string]string{}).(map[string]string)
		if m == nil {
			m = map[string]string{}
		}
		m["__nonce"] = fmt.Sprint(n)
		p.in = []interface{}{m, mk([][]string{})}
		p.ret, p.outs = mk(map[string]string{}), []interface{}{mk([][]string{})}
	case "echoBig":
		b := mk(VerifAll.Big{}).(VerifAll.Big)
		b.I32 = n
		p.in = []interface{}{b, mk(VerifAll.Color(0))}
		p.ret, p.outs = mk(VerifAll.Big{}), []interface{}{mk(VerifAll.Big{}), mk(VerifAll.Color(0))}
	case "fail":
		p.in = []interface{}{mk(int32(0)), fmt.Sprintf("n%d|%s", n, genString(100))}
		p.ret = mk(int32(0))
	case "oneWayNote":
		p.in = []interface{}{fmt.Sprintf("n%d|%s", n, genString(5000)), mk(VerifAll.Inner{})}
	}
	s.mu.Lock()
	s.plans[n] = p
	s.order = append(s.order, p)
	s.mu.Unlock()
	return p
}

// call performs the planned call through the generated proxy.
func (s *S) call(c *scen.Ctx, prx *VerifAll.Echo, p *plan) {
	var opts []map[string]string
	var cctx, cst map[string]string
	if p.ctxMode >= 1 {
		cctx = cloneMap(p.reqCtx)
		opts = append(opts, cctx)
	}
	if p.ctxMode == 2 {
		cst = cloneMap(p.reqStatus)
		opts = append(opts, cst)
	}
	ctx := context.Background()
	var ret interface{}
	var outs []interface{}
	var err error
	s.mu.Lock()
	p.startStep = simrt.Step()
	s.mu.Unlock()
	defer s.afterCall(c, p)
	switch p.method {
	case "ping":
		err = prx.PingWithContext(ctx, opts...)
	case "addInts":
		var sum int64 = 12345
		var r int32
		r, err = prx.AddIntsWithContext(ctx, p.in[0].(int32), p.in[1].(int64), &sum, opts...)
		ret, outs = r, []interface{}{sum}
	case "addIntsOneWay":
		var sum int64
		_, err = prx.AddIntsOneWayWithContext(ctx, p.in[0].(int32), p.in[1].(int64), &sum, opts...)
	case "echoString":
		var up string
		var r string
		r, err = prx.EchoStringWithContext(ctx, p.in[0].(string), &up, opts...)
		ret, outs = r, []interface{}{up}
	case "flags":
		var f64o float64
		var f32o float32
		var u32o uint32
		var r bool
		r, err = prx.FlagsWithContext(ctx, p.in[0].(bool), p.in[1].(int8), p.in[2].(int16), p.in[3].(uint8), p.in[4].(uint16), p.in[5].(uint32), p.in[6].(float32), p.in[7].(float64), &f64o, &f32o, &u32o, opts...)
		ret, outs = r, []interface{}{f64o, f32o, u32o}
	case "echoBytes":
		var l []int32
		var r []int8
		r, err = prx.EchoBytesWithContext(ctx, p.in[0].([]int8), &l, opts...)
		ret, outs = r, []interface{}{l}
	case "echoMap":
		var vv [][]string
		var r map[string]string
		r, err = prx.EchoMapWithContext(ctx, p.in[0].(map[string]string), p.in[1].([][]string), &vv, opts...)
		ret, outs = r, []interface{}{vv}
	case "echoBig":
		b := p.in[0].(VerifAll.Big)
		var bo VerifAll.Big
		var co VerifAll.Color
		var r VerifAll.Big
		r, err = prx.EchoBigWithContext(ctx, &b, p.in[1].(VerifAll.Color), &bo, &co, opts...)
		ret, outs = r, []interface{}{bo, co}
	case "fail":
		var r int32
		r, err = prx.FailWithContext(ctx, p.in[0].(int32), p.in[1].(string), opts...)
		ret = r
	case "oneWayNote":
		in := p.in[1].(VerifAll.Inner)
		err = prx.OneWayNoteOneWayWithContext(ctx, p.in[0].(string), &in, opts...)
	}
	s.mu.Lock()
	p.done, p.cRet, p.cOuts, p.cErr, p.cCtx, p.cStatus = true, ret, outs, err, cctx, cst
	s.mu.Unlock()
	simrt.Sleep(0)
}

// ---------- oracle ----------

func (s *S) Check(c *scen.Ctx, res *simrt.Result) {
	s.mu.Lock()
	defer s.mu.Unlock()
	if !s.done {
		if res.Status != "ok" {
			for _, p := range s.order {
				if !p.done {
					c.Fail("C01", "call-never-returned", p.method, "call %d (%s) of caller %d did not return on a fault-free network (run status %s)", p.nonce, p.method, p.caller, res.Status)
					return
				}
			}
			c.Inconclusive("run ended (%s)", res.Status)
		}
		return
	}
	// wire ids of the calls (through the nonce in the request context) and the response ids
	wireID := map[int32]int32{}
	var rspIDs = map[int32]int{}
	for _, pr := range simnet.Pairs() {
		if pr.Addr != addr {
			continue
		}
		frames, _, _ := refcodec.SplitFrames(pr.C2S.Bytes(), 0)
		for _, f := range frames {
			if q, err := refcodec.DecodeRequest(f); err == nil {
				var n int32
				fmt.Sscanf(q.Context["nonce"], "%d", &n)
				if n != 0 {
					wireID[n] = q.RequestID
				}
			} else {
				c.Fail("C01", "undecodable-request", "proxy", "the proxy put a frame on the wire that the reference decoder rejects: %v", err)
			}
		}
		rf, _, _ := refcodec.SplitFrames(pr.S2C.Bytes(), 0)
		for _, f := range rf {
			if r, err := refcodec.DecodeResponse(f); err == nil {
				rspIDs[r.RequestID]++
			} else {
				c.Fail("C01", "undecodable-response", "dispatcher", "the server put a frame on the wire that the reference decoder rejects: %v", err)
			}
		}
	}
	for _, p := range s.order {
		key := p.method
		if !p.done {
			c.Fail("C01", "call-never-returned", key, "call %d (%s) did not return", p.nonce, p.method)
			continue
		}
		if p.ran != 1 {
			c.Fail("C01", "execution-count", key, "call %d (%s, one-way=%v): the implementation ran %d times", p.nonce, p.method, p.oneway, p.ran)
			continue
		}
		// what the servant received
		for i := range p.in {
			if i >= len(p.gotIn) {
				break
			}
			if d := diffAny(p.in[i], p.gotIn[i], fmt.Sprintf("arg%d", i)); d != "" {
				c.Fail("C01", "argument-changed", key, "call %d (%s): the implementation received a different argument: %s", p.nonce, p.method, d)
			}
		}
		if p.ctxMode >= 1 && !mapsEq(p.reqCtx, p.gotCtx) {
			c.Fail("C01", "request-context-changed", key, "call %d (%s): caller passed context %v, the implementation saw %v", p.nonce, p.method, p.reqCtx, p.gotCtx)
		}
		if p.ctxMode == 2 && !mapsEq(p.reqStatus, p.gotStatus) {
			c.Fail("C01", "request-status-changed", key, "call %d (%s): caller passed status %v, the implementation saw %v", p.nonce, p.method, p.reqStatus, p.gotStatus)
		}
		if p.ctxMode == 0 && (len(p.gotCtx) != 0 || len(p.gotStatus) != 0) {
			c.Fail("C01", "request-context-changed", key, "call %d (%s): caller passed no context/status, the implementation saw %v / %v", p.nonce, p.method, p.gotCtx, p.gotStatus)
		}
		id, haveID := wireID[p.nonce]
		if p.oneway {
			if p.cErr != nil {
				c.Fail("C01", "oneway-error", key, "one-way call %d failed: %v", p.nonce, p.cErr)
			}
			if haveID && rspIDs[id] > 0 {
				c.Fail("C01", "oneway-replied", key, "one-way call %d (wire id %d) produced %d response frame(s)", p.nonce, id, rspIDs[id])
			}
			c.Count("probe.oneway_calls", 1)
		} else if p.errCode != 0 {
			c.Count("probe.failed_calls", 1)
			if p.cErr == nil {
				c.Fail("C01", "error-lost", key, "call %d (%s): the implementation failed with code %d %q, the caller got success", p.nonce, p.method, p.errCode, p.errMsg)
			} else {
				var te *tars.Error
				if errors.As(p.cErr, &te) {
					if te.Code != p.errCode || te.Message != p.errMsg {
						c.Fail("C01", "error-changed", key, "call %d (%s): the implementation failed with code %d %q, the caller got code %d %q", p.nonce, p.method, p.errCode, trunc(p.errMsg), te.Code, trunc(te.Message))
					}
				} else if p.errCode != 1 || p.cErr.Error() != p.errMsg {
					c.Fail("C01", "error-changed", key, "call %d (%s): the implementation failed with code %d %q, the caller got %q", p.nonce, p.method, p.errCode, trunc(p.errMsg), trunc(p.cErr.Error()))
				}
			}
		} else {
			if p.cErr != nil {
				c.Fail("C01", "unexpected-error", key, "call %d (%s) failed although the implementation succeeded: %v", p.nonce, p.method, p.cErr)
				continue
			}
			if p.ret != nil {
				if d := diffAny(p.ret, p.cRet, "return"); d != "" {
					c.Fail("C01", "return-changed", key, "call %d (%s): %s", p.nonce, p.method, d)
				}
			}
			for i := range p.outs {
				if d := diffAny(p.outs[i], p.cOuts[i], fmt.Sprintf("out%d", i)); d != "" {
					c.Fail("C01", "out-parameter-changed", key, "call %d (%s): %s", p.nonce, p.method, d)
				}
			}
			if p.ctxMode >= 1 && !mapsEq(p.rspCtx, p.cCtx) {
				c.Fail("C01", "response-context-changed", key, "call %d (%s): the implementation set response context %v, the caller's map holds %v", p.nonce, p.method, p.rspCtx, p.cCtx)
			}
			if p.ctxMode == 2 && !mapsEq(p.rspStatus, p.cStatus) {
				c.Fail("C01", "response-status-changed", key, "call %d (%s): the implementation set response status %v, the caller's map holds %v", p.nonce, p.method, p.rspStatus, p.cStatus)
			}
		}
		// filters: exactly once, in registration order
		if haveID {
			want := strings.Join(s.cfNames, ",")
			wantLate := strings.Join(append(append([]string(nil), s.cfNames...), "late"), ",")
			got := strings.Join(s.filtLog[id], ",")
			switch {
			case s.lateDone > 0 && p.startStep > s.lateDone: // started after the late middleware was registered
				if got != wantLate {
					c.Fail("C01", "client-filter-order", fmt.Sprintf("family%d,late", s.cfFam), "call %d (%s) started after one more client middleware had been registered (at step %d, call started at step %d): filters registered as %v saw the call as %v", p.nonce, p.method, s.lateDone, p.startStep, strings.Split(wantLate, ","), s.filtLog[id])
				}
			case s.lateFrom > 0 && p.endStep >= s.lateFrom: // overlapped the registration: either
				if got != want && got != wantLate {
					c.Fail("C01", "client-filter-order", fmt.Sprintf("family%d", s.cfFam), "call %d (%s): client filters registered as %v (+late) saw the call as %v", p.nonce, p.method, s.cfNames, s.filtLog[id])
				}
			default:
				if got != want {
					c.Fail("C01", "client-filter-order", fmt.Sprintf("family%d", s.cfFam), "call %d (%s): client filters registered as %v saw the call as %v", p.nonce, p.method, s.cfNames, s.filtLog[id])
				}
			}
			if got := s.sfLog[id]; strings.Join(got, ",") != strings.Join(s.sfNames, ",") {
				c.Fail("C01", "server-filter-order", fmt.Sprintf("family%d", s.sfFam), "call %d (%s): server filters registered as %v saw the call as %v", p.nonce, p.method, s.sfNames, got)
			}
		}
	}
	var ms []string
	for _, p := range s.order {
		ms = append(ms, p.method)
	}
	sort.Strings(ms)
	c.Count("probe.calls", len(s.order))
}

func trunc(s string) string {
	if len(s) > 60 {
		return s[:60] + "..."
	}
	return s
}
