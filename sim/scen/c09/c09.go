// Package c09: every call terminates by its deadline and leaves nothing behind.
package c09

import (
	"bytes"
	"context"
	"fmt"
	"strings"
	"sync"
	"time"

	"github.com/TarsCloud/TarsGo/tars"
	"github.com/TarsCloud/TarsGo/tars/protocol/res/requestf"
	"github.com/TarsCloud/TarsGo/tars/util/current"
	"github.com/TarsCloud/TarsGo/tars/util/tools"

	"verifsim/refcodec"
	"verifsim/scen"
	"verifsim/scen/world"
	"verifsim/simnet"
	"verifsim/simrt"
)

func init() { scen.Register("c09", func() scen.Scenario { return &S{} }) }

type call struct {
	caller, k   int
	payload     []byte
	deadline    time.Duration // effective deadline (relative)
	kind        string        // ctx | percall | proxy
	t0, t1      time.Duration
	done        bool
	err         error
	rspID       int32
	rspBuf      []byte
}

type S struct {
	mu       sync.Mutex
	faults   bool
	pushOn   bool
	healed   bool
	pings    bool // keep-alive pings fall into the run
	srv3     *world.Server
	calls    []*call
	srv      *world.Server
	srv2     *world.Server
	prx      *tars.ServantProxy
	tls      bool
	prxs     []*tars.ServantProxy // all proxy objects for the servant (they share manager, adapters, pending table)
	before   tars.VerifProxyState
	after    tars.VerifProxyState
	finished bool
	dialTO   time.Duration
	writeTO  time.Duration
	readTO   time.Duration
	proxyTO  int
	ncallers int
	modes    map[int]string // conn id -> behaviour
	addrFault string
	plans    map[int32]string
}

func (s *S) Prepare(c *scen.Ctx) { world.PrepareProcess() }
func (s *S) YieldOff() []string {
	return []string{"tars/util/rtimer", "tars/util/rogger", "tars/util/gpool", "tars/selector"}
}
func (s *S) Limits() (time.Duration, int) { return 4 * time.Minute, 1500000 }

const addr = "10.0.0.9:1000"

var siteCaller = simrt.Site("c09.caller")

func ms(n int) time.Duration { return time.Duration(n) * time.Millisecond }

func (s *S) Run(c *scen.Ctx) {
	s.faults = c.Param("faults", "on") == "on"
	s.modes = map[int]string{}
	s.plans = map[int32]string{}
	simnet.Cfg.Fragment = simrt.Draw(2, "c09.frag") == 1
	simnet.Cfg.Delay = s.faults && simrt.Draw(2, "c09.delay") == 1
	simnet.Cfg.SmallBufs = s.faults && simrt.Draw(3, "c09.smallbufs") == 2
	simnet.Cfg.DialDelay = s.faults && simrt.Draw(2, "c09.dialdelay") == 1
	s.proxyTO = []int{3000, 200, 500, 1500}[simrt.Draw(4, "c09.proxyto")]
	s.dialTO = []time.Duration{ms(3000), ms(100), ms(500)}[simrt.Draw(3, "c09.dialto")]
	s.writeTO = []time.Duration{ms(3000), ms(50), ms(400)}[simrt.Draw(3, "c09.writeto")]
	s.readTO = []time.Duration{ms(100), ms(30), ms(700)}[simrt.Draw(3, "c09.readto")]
	qlen := []int{10000, 1, 2}[simrt.Draw(3, "c09.qlen")]
	objMax := int32(0)
	if s.faults {
		// admission limit of the proxy: calls beyond it are refused at once ("invoke queue is full")
		objMax = []int32{0, 0, 1, 3}[simrt.Draw(4, "c09.objmax")]
	}
	c.Describe("obj_queue_max", objMax)
	// a push client (a proxy with a push callback) pings its endpoints every half client idle
	// time-out; with a short one the pings fall into the run, also onto dead or refusing peers
	s.pushOn = simrt.Draw(4, "c09.pushcb") == 3
	s.tls = s.faults && simrt.Draw(8, "c09.tls") == 7
	idle := time.Duration(0)
	if s.pushOn && !s.tls { // (no peer of the simulation completes a TLS handshake: pings would never get through)
		idle = []time.Duration{0, 400 * time.Millisecond, 2 * time.Second}[simrt.Draw(3, "c09.pushidle")]
	}
	s.pings = idle > 0
	c.Describe("client_idle_timeout", idle.String())
	comm := world.NewClient(world.ClientOpts{InvokeTimeoutMs: s.proxyTO, DialTimeout: s.dialTO, WriteTimeout: s.writeTO, ReadTimeout: s.readTO, QueueLen: qlen, ObjQueueMax: objMax, IdleTimeout: idle})
	var err error
	s.srv, err = world.StartServer(addr, func(sc *world.SrvConn, req *refcodec.Request, raw []byte) { s.onRequest(c, sc, req) })
	if err != nil {
		c.Inconclusive("listen: %v", err)
		return
	}
	s.srv.OnAccept = func(sc *world.SrvConn) bool { return s.onAccept(c, sc) }
	// an ssl endpoint whose peer never completes a TLS handshake (it is not a TLS server at all: it
	// stays silent, closes, or answers with something else): connecting includes the handshake,
	// and the connection-establishment bound covers both
	obj := "App.Srv.Obj@tcp -h 10.0.0.9 -p 1000 -t 3000"
	if s.tls {
		obj = "App.Srv.Obj@ssl -h 10.0.0.9 -p 1000 -t 3000"
		c.Count("fault.tls_handshake_never_completes", 1)
	}
	c.Describe("ssl_endpoint", s.tls)
	s.prx = world.Proxy(comm, obj)
	s.prxs = []*tars.ServantProxy{s.prx}
	for i := []int{0, 0, 1, 2}[simrt.Draw(4, "c09.proxies")]; i > 0; i-- {
		s.prxs = append(s.prxs, world.Proxy(comm, obj))
	}
	if s.pushOn {
		// a push client: the proxy has a push callback (the framework then keeps the connection alive)
		for _, p := range s.prxs {
			p.SetPushCallback(func([]byte) {})
		}
		c.Describe("push_callback", true)
	}
	c.Describe("proxy_objects", len(s.prxs))
	s.before = s.state()
	s.ncallers = 1 + simrt.Draw(6, "c09.callers")
	per := 1 + simrt.Draw(4, "c09.per")
	c.Describe("faults", s.faults)
	c.Describe("callers", s.ncallers)
	c.Describe("calls_per_caller", per)
	c.Describe("proxy_timeout_ms", s.proxyTO)
	c.Describe("dial_timeout", s.dialTO.String())
	c.Describe("write_timeout", s.writeTO.String())
	c.Describe("read_timeout", s.readTO.String())
	c.Describe("send_queue_len", qlen)
	if s.faults {
		switch simrt.Draw(6, "c09.addrfault") {
		case 1:
			s.addrFault = "refuse"
			simnet.SetRefuse(addr, true)
			c.Count("fault.dial_refused", 1)
		case 2:
			s.addrFault = "blackhole"
			simnet.SetBlackhole(addr, true)
			c.Count("fault.dial_blackholed", 1)
		case 3:
			s.addrFault = "refuse-then-heal"
			simnet.SetRefuse(addr, true)
			c.Count("fault.dial_refused", 1)
			heal := ms(1 + simrt.Draw(400, "c09.heal"))
			simrt.Go(func() { simrt.Sleep(heal); simnet.SetRefuse(addr, false) })
		case 4:
			s.addrFault = "crash-restart"
			at := ms(simrt.Draw(300, "c09.crashat"))
			back := ms(1 + simrt.Draw(300, "c09.crashback"))
			simrt.Go(func() {
				simrt.Sleep(at)
				c.Count("fault.server_crash", 1)
				old := s.srv
				old.Stop(true)
				simrt.Sleep(back)
				ns, err := world.StartServer(addr, old.OnRequest)
				if err == nil {
					ns.OnAccept = old.OnAccept
					s.mu.Lock()
					s.srv2 = ns
					s.mu.Unlock()
				}
			})
		}
	}
	c.Describe("address_fault", s.addrFault)
	var wg sync.WaitGroup
	for ci := 0; ci < s.ncallers; ci++ {
		ci := ci
		wg.Add(1)
		simrt.GoNamed(fmt.Sprintf("caller%d", ci), func() {
			defer wg.Done()
			for k := 0; k < per; k++ {
				cl := &call{caller: ci, k: k, payload: []byte(fmt.Sprintf("c9-%d-%d|%s", ci, k, strings.Repeat("y", simrt.Draw(300, "c09.pad"))))}
				ctx := context.Background()
				var cancel context.CancelFunc
				switch simrt.Draw(3, "c09.dlkind") {
				case 1:
					d := ms(20 + 40*simrt.Draw(40, "c09.ctxdl"))
					ctx, cancel = context.WithTimeout(ctx, d)
					cl.deadline, cl.kind = d, "ctx"
				case 2:
					d := 20 + 40*simrt.Draw(40, "c09.calldl")
					ctx = current.ContextWithClientCurrent(ctx)
					current.SetClientTimeout(ctx, d)
					cl.deadline, cl.kind = ms(d), "percall"
				default:
					cl.deadline, cl.kind = ms(s.proxyTO), "proxy"
				}
				s.mu.Lock()
				s.calls = append(s.calls, cl)
				s.mu.Unlock()
				var rsp requestf.ResponsePacket
				cl.t0 = simrt.Elapsed()
				err := s.prxs[ci%len(s.prxs)].TarsInvoke(ctx, 0, "echo", cl.payload, nil, nil, &rsp)
				s.mu.Lock()
				cl.t1 = simrt.Elapsed()
				cl.done, cl.err = true, err
				if err == nil {
					cl.rspID, cl.rspBuf = rsp.IRequestId, tools.Int8ToByte(rsp.SBuffer)
				}
				s.mu.Unlock()
				if cancel != nil {
					cancel()
				}
				simrt.Yield(siteCaller)
				if g := simrt.Draw(4, "c09.gap"); g > 0 {
					simrt.Sleep(ms(g * 7))
				}
			}
		})
	}
	wg.Wait()
	// idle for longer than the read time-out and the longest time-out in use
	// (plus one dial time-out: a sender that found requests queued for a lost connection may
	// still be dialling a black-holed address, holding the connection lock others wait for)
	simrt.Sleep(s.readTO + ms(s.proxyTO) + ms(1700) + ms(500) + s.dialTO + ms(100))
	if s.pushOn && idle > 0 {
		// Keep-alive pings go on for the life of the process, and a ping to a dead peer holds its
		// place in the proxy's queue for a dial or write time-out, one ping after the other. Before
		// the counters are read the faults stop: the address is reachable again and a fresh server
		// answers everything, so that a ping takes no time. What a call or a failed ping left
		// behind stays; what a ping holds while it is being sent does not.
		s.mu.Lock()
		s.healed = true
		s.mu.Unlock()
		simnet.SetRefuse(addr, false)
		simnet.SetBlackhole(addr, false)
		for _, sv := range s.servers() {
			sv.Stop(true)
		}
		if ns, err := world.StartServer(addr, s.srv.OnRequest); err == nil {
			ns.OnAccept = s.srv.OnAccept
			s.mu.Lock()
			s.srv3 = ns
			s.mu.Unlock()
		}
		c.Count("probe.faults_stopped_before_counters_are_read", 1)
		simrt.Sleep(s.dialTO + s.writeTO + ms(1000))
	}
	after := s.state()
	for i := 0; i < 5 && s.pushOn && (after.QueueLen != s.before.QueueLen || after.Pending != s.before.Pending || after.InvokeNum != s.before.InvokeNum); i++ {
		simrt.Sleep(ms(137))
		after = s.state()
	}
	s.mu.Lock()
	s.after = after
	s.finished = true
	s.mu.Unlock()
}

// state sums the per-proxy counters; the pending table and invokeNum belong to the shared manager.
func (s *S) state() tars.VerifProxyState {
	st := tars.VerifState(s.prxs[0])
	for _, p := range s.prxs[1:] {
		st.QueueLen += tars.VerifState(p).QueueLen
	}
	return st
}

// srv2 is the restarted server (crash-restart fault).
func (s *S) servers() []*world.Server {
	out := []*world.Server{s.srv}
	if s.srv2 != nil {
		out = append(out, s.srv2)
	}
	if s.srv3 != nil {
		out = append(out, s.srv3)
	}
	return out
}

func (s *S) onAccept(c *scen.Ctx, sc *world.SrvConn) bool {
	mode := "normal"
	s.mu.Lock()
	healed := s.healed
	s.mu.Unlock()
	if s.faults && !healed {
		switch simrt.Draw(8, "c09.connmode") {
		case 1:
			mode = "close-on-accept"
			c.Count("fault.close_on_accept", 1)
			sc.Close()
		case 2:
			mode = "never-read"
			c.Count("fault.peer_stops_reading", 1)
		case 3:
			mode = "silent"
			c.Count("fault.peer_silent", 1)
		case 4:
			mode = "garbage-on-accept"
			c.Count("fault.garbage", 1)
			sc.WriteRaw(garbage(simrt.Draw(4, "c09.garbage")))
		}
	}
	s.mu.Lock()
	s.modes[sc.ID] = mode
	s.mu.Unlock()
	return mode != "close-on-accept" && mode != "never-read"
}

func garbage(kind int) []byte {
	switch kind {
	case 0:
		return []byte{0, 0, 0, 2, 9, 9} // illegal length prefix
	case 1:
		return []byte{0x7f, 0xff, 0xff, 0xff, 1, 2, 3} // length far beyond the maximum
	case 2:
		return []byte{0, 0, 0, 9, 0xff, 0xfe, 0xfd, 0xfc, 0xfb} // well framed, undecodable
	}
	return []byte{0, 0, 0, 12, 0x1c, 0x2c, 0x3c, 0x4c, 0x5c, 0x6d, 0, 0} // well framed, wrong field types
}

func (s *S) onRequest(c *scen.Ctx, sc *world.SrvConn, req *refcodec.Request) {
	s.mu.Lock()
	mode := s.modes[sc.ID]
	s.mu.Unlock()
	if mode == "silent" {
		s.note(req.RequestID, "silent-conn")
		return
	}
	rsp := world.Echo(req)
	send := func(r *refcodec.Response, d time.Duration) {
		if d == 0 {
			sc.Reply(r)
			return
		}
		simrt.Go(func() { simrt.Sleep(d); sc.Reply(r) })
	}
	s.mu.Lock()
	healed := s.healed
	s.mu.Unlock()
	if healed {
		send(rsp, 0)
		return
	}
	if !s.faults {
		if simrt.Draw(3, "c09.okplan") == 2 {
			send(rsp, ms(simrt.Draw(15, "c09.d")))
			s.note(req.RequestID, "small-delay")
		} else {
			send(rsp, 0)
			s.note(req.RequestID, "immediate")
		}
		return
	}
	to := ms(int(req.Timeout))
	switch simrt.Draw(12, "c09.plan") {
	case 0, 1, 2, 3:
		s.note(req.RequestID, "immediate")
		send(rsp, 0)
	case 4:
		s.note(req.RequestID, "never")
		c.Count("fault.no_answer", 1)
	case 5:
		s.note(req.RequestID, "around-deadline")
		c.Count("fault.answer_near_deadline", 1)
		send(rsp, to+ms(simrt.Draw(9, "c09.near")-4))
	case 6:
		s.note(req.RequestID, "late")
		c.Count("fault.answer_late", 1)
		send(rsp, to+ms(1+simrt.Draw(300, "c09.d")))
	case 7:
		s.note(req.RequestID, "close-after-request")
		c.Count("fault.close_after_request", 1)
		sc.Close()
	case 8:
		s.note(req.RequestID, "half-response-then-close")
		c.Count("fault.close_mid_response", 1)
		fr := refcodec.EncodeResponse(rsp)
		sc.WriteRaw(fr[:1+simrt.Draw(len(fr)-1, "c09.cut")])
		sc.Close()
	case 9:
		s.note(req.RequestID, "reset")
		c.Count("fault.reset", 1)
		sc.C.Pair.Reset()
	case 10:
		s.note(req.RequestID, "garbage")
		c.Count("fault.garbage", 1)
		sc.WriteRaw(garbage(simrt.Draw(4, "c09.garbage")))
	case 11:
		s.note(req.RequestID, "other-id-then-own")
		c.Count("fault.stray_id", 1)
		stray := *rsp
		stray.RequestID ^= 0x20000000
		send(&stray, 0)
		send(rsp, ms(simrt.Draw(20, "c09.d")))
	}
}

func (s *S) note(id int32, plan string) {
	s.mu.Lock()
	s.plans[id] = plan
	s.mu.Unlock()
}

func errClass(err error) string {
	if err == nil {
		return "ok"
	}
	e := err.Error()
	switch {
	case strings.Contains(e, "request timeout"):
		return "request-timeout"
	case strings.Contains(e, "write timeout"):
		return "send-queue-write-timeout"
	case strings.Contains(e, "i/o timeout"):
		return "dial-timeout"
	case strings.Contains(e, "refused"):
		return "dial-refused"
	case strings.Contains(e, "queue is full"):
		return "obj-queue-full"
	}
	if len(e) > 40 {
		e = e[:40]
	}
	return strings.Map(func(r rune) rune {
		if r == ' ' || r == ':' {
			return '_'
		}
		return r
	}, e)
}

func (s *S) Check(c *scen.Ctx, res *simrt.Result) {
	s.mu.Lock()
	defer s.mu.Unlock()
	if s.srv == nil {
		return
	}
	var reqs []world.ReqRec
	for _, sv := range s.servers() {
		reqs = append(reqs, sv.Requests()...)
	}
	wire := map[string]int32{}
	for _, r := range reqs {
		wire[string(r.Req.Buffer)] = r.Req.RequestID
	}
	// a stalled goroutine (injected slow-node fault) may miss its turn and then wait
	// for one more connection attempt made by somebody else
	dials := simnet.Dials()
	slack := 60*time.Millisecond + s.writeTO/20 + res.StallTotal + time.Duration(res.Stalls)*s.dialTO
	for _, cl := range s.calls {
		if !cl.done {
			c.Fail("C09", "call-never-returned", "faults="+s.faultKey(cl, wire), "call %d/%d (deadline %v via %s) had not returned when the run ended (%s) at sim time %v; server plan %q, address fault %q",
				cl.caller, cl.k, cl.deadline, cl.kind, res.Status, simrt.Elapsed(), s.plans[wire[string(cl.payload)]], s.addrFault)
			continue
		}
		dur := cl.t1 - cl.t0
		// the connection-establishment bound only applies when a connection was being
		// established while the call was in progress
		bound := cl.deadline + slack
		for _, d := range dials {
			if d.Time+s.dialTO >= cl.t0 && d.Time <= cl.t1 {
				bound = cl.deadline + s.dialTO + slack
				break
			}
		}
		if dur > bound {
			c.Fail("C09", "deadline-exceeded", "err="+errClass(cl.err), "call %d/%d took %v; effective deadline %v (%s) + dial time-out %v + slack %v = %v; outcome: %v; %d concurrent callers, address fault %q",
				cl.caller, cl.k, dur, cl.deadline, cl.kind, s.dialTO, slack, bound, cl.err, s.ncallers, s.addrFault)
		}
		if cl.err == nil {
			id, ok := wire[string(cl.payload)]
			if !ok || id != cl.rspID || !bytes.Equal(cl.rspBuf, cl.payload) {
				c.Fail("C09", "wrong-response", "TarsInvoke", "call %d/%d received id %d payload %q for its request id %d payload %q", cl.caller, cl.k, cl.rspID, cl.rspBuf, id, cl.payload)
			}
		} else if !s.faults {
			c.Fail("C09", "failure-without-fault", "err="+errClass(cl.err), "call %d/%d failed although no fault was injected and the server answered promptly: %v (took %v)", cl.caller, cl.k, cl.err, dur)
		}
		if cl.err != nil {
			c.Count("probe.outcome."+errClass(cl.err), 1)
		}
	}
	if s.finished {
		// (a goroutine that waits for the connection lock while somebody dials is not stuck: only
		// waits longer than a dial can take count)
		var stuck []string
		for i, w := range res.LockWaitEnd {
			// (nor is one that waits behind a lock holder the slow-node fault has stalled)
			if res.LockWaitFor[i] >= s.dialTO+time.Second+res.StallTotal {
				stuck = append(stuck, fmt.Sprintf("%s (for %v)", w, res.LockWaitFor[i]))
			}
		}
		if len(stuck) > 0 {
			c.Fail("C09", "goroutine-leak", "blocked-forever", "after all calls had returned and the world had been idle for %v, %d goroutine(s) started by the calls were still blocked on a lock or a sync.Once that nobody will release: %v",
				s.readTO+ms(s.proxyTO)+ms(2300)+s.dialTO, len(stuck), stuck)
		}
		// (a keep-alive ping whose goroutine the slow-node fault has stalled holds its place in the
		// queue for as long as the stall lasts: runs with pings and stalls are not judged)
		if s.pings && res.Stalls > 0 {
			c.Count("probe.counters_not_judged_ping_goroutine_may_be_stalled", 1)
		} else if s.after.QueueLen != s.before.QueueLen || s.after.Pending != s.before.Pending || s.after.InvokeNum != s.before.InvokeNum {
			c.Fail("C09", "leftover", "proxy-state", "after every call returned and the world was idle for %v: queueLen %d (was %d), pending replies %d (was %d), invokeNum %d (was %d)",
				s.readTO+ms(s.proxyTO)+ms(2200), s.after.QueueLen, s.before.QueueLen, s.after.Pending, s.before.Pending, s.after.InvokeNum, s.before.InvokeNum)
		}
		// the connection's own count of requests awaiting an answer: when every call was answered
		// (fault-free variant, no unanswered keep-alive pings) nothing is awaiting one any more
		if !s.faults && !s.pushOn && s.after.ConnInFlight != s.before.ConnInFlight {
			c.Fail("C09", "leftover", "connection-in-flight", "every call was answered and returned, the world was idle for %v, and the connections still count %d request(s) as awaiting an answer (was %d)",
				s.readTO+ms(s.proxyTO)+ms(2200), s.after.ConnInFlight, s.before.ConnInFlight)
		}
	}
}

func (s *S) faultKey(cl *call, wire map[string]int32) string {
	if s.addrFault != "" {
		return s.addrFault
	}
	if id, ok := wire[string(cl.payload)]; ok {
		return s.plans[id]
	}
	return "request-not-on-wire"
}
