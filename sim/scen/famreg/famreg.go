// Package famreg is where the glue emitted by idlgen registers the modules of
// the generated IDL family, so that the C01 family scenario can drive their
// tars2go-generated proxies and dispatchers through reflection.
package famreg

import (
	"context"
	"sort"
	"sync"
)

// Handler is the generic servant body every generated method forwards to: in
// holds the in-parameters by value, outs pointers to the out-parameters.
type Handler func(ctx context.Context, method string, in []interface{}, outs []interface{}) (ret interface{}, err error)

type Method struct {
	Name    string
	GoName  string
	NParams int
	Out     []int
	HasRet  bool
}

type Module struct {
	Name          string
	NewProxy      func() interface{}
	NewDispatcher func() interface{}
	NewImp        func(Handler) interface{}
	Methods       []Method
}

var (
	mu   sync.Mutex
	mods []Module
)

func Register(m Module) { mu.Lock(); mods = append(mods, m); mu.Unlock() }

// All returns the registered modules sorted by name.
func All() []Module {
	mu.Lock()
	defer mu.Unlock()
	out := append([]Module(nil), mods...)
	sort.Slice(out, func(i, j int) bool { return out[i].Name < out[j].Name })
	return out
}
