// Package c10: the server answers each well-formed request exactly once with matching identity.
package c10

import (
	"context"
	"encoding/json"
	"errors"
	"fmt"
	"sort"
	"strconv"
	"strings"
	"sync"
	"time"

	"github.com/TarsCloud/TarsGo/tars"
	"github.com/TarsCloud/TarsGo/tars/protocol/res/requestf"
	"github.com/TarsCloud/TarsGo/tars/transport"

	"verifsim/gen/VerifAll"
	"verifsim/refcodec"
	"verifsim/scen"
	"verifsim/scen/world"
	"verifsim/simnet"
	"verifsim/simrt"
)

func init() { scen.Register("c10", func() scen.Scenario { return &S{} }) }

// ---- servant implementation (generated interface EchoServantWithContext) ----

type imp struct{ s *S }

func (i *imp) note(fn string, key string) {
	simrt.Event("servant invoked: %s", key)
	i.s.mu.Lock()
	i.s.invoked[key]++
	i.s.mu.Unlock()
}
func (i *imp) Ping(ctx context.Context) error { i.note("ping", "ping"); return nil }
func (i *imp) AddInts(ctx context.Context, a int32, b int64, sum *int64) (int32, error) {
	i.note("addInts", fmt.Sprintf("addInts:%d", a))
	*sum = int64(a) + b
	return a, nil
}
func (i *imp) EchoString(ctx context.Context, s string, upper *string) (string, error) {
	i.note("echoString", "echoString:"+s)
	*upper = strings.ToUpper(s)
	return s, nil
}
func (i *imp) Flags(ctx context.Context, b bool, i8 int8, i16 int16, u8 uint8, u16 uint16, u32 uint32, f32 float32, f64 float64, f64Out *float64, f32Out *float32, u32Out *uint32) (bool, error) {
	return b, nil
}
func (i *imp) EchoBytes(ctx context.Context, data []int8, lens *[]int32) ([]int8, error) {
	return data, nil
}
func (i *imp) EchoMap(ctx context.Context, m map[string]string, vv [][]string, vvOut *[][]string) (map[string]string, error) {
	return m, nil
}
func (i *imp) EchoBig(ctx context.Context, big *VerifAll.Big, c VerifAll.Color, bigOut *VerifAll.Big, cOut *VerifAll.Color) (VerifAll.Big, error) {
	return *big, nil
}
func (i *imp) Fail(ctx context.Context, code int32, msg string) (int32, error) {
	i.note("fail", "fail:"+msg)
	if code == 0 {
		return 0, errors.New(msg)
	}
	return 0, &tars.Error{Code: code, Message: msg}
}
func (i *imp) Slow(ctx context.Context, millis int32, waited *int32) (int32, error) {
	i.note("slow", fmt.Sprintf("slow:%d", millis))
	simrt.Sleep(time.Duration(millis>>8) * time.Millisecond) // low 8 bits: uniqueness tag
	*waited = millis
	return millis, nil
}
func (i *imp) OneWayNote(ctx context.Context, note string, inner *VerifAll.Inner) error {
	i.note("oneWayNote", "oneWayNote:"+note)
	return nil
}

// ---- requests ----

type reqPlan struct {
	req      *refcodec.Request
	key      string // servant invocation key ("" = must not reach the servant)
	kind     string // addInts | echoString | fail | slow | ping | nofunc
	a        int32
	b        int64
	str      string
	code     int32
	slowMs   int
	conn     int
	sentAt   time.Duration
	mustQueueTimeout bool
	mayQueueTimeout  bool
}

type S struct {
	mu       sync.Mutex
	invoked  map[string]int
	plans    []*reqPlan
	proto    string
	pool     int
	handleTO time.Duration
	conns    []*simnet.TCPConn
	udpCli   []*simnet.UDPConn
	udpSrv   string
	qcap     int
	bigStrings bool
	seq      int
	done     bool
}

func (s *S) Prepare(c *scen.Ctx) { world.PrepareProcess() }
func (s *S) YieldOff() []string {
	return []string{"tars/util/rtimer", "tars/util/rogger", "tars/selector"}
}
func (s *S) NoStalls() bool                 { return true }
func (s *S) Limits() (time.Duration, int) { return 5 * time.Minute, 2000000 }

const addr = "10.0.0.9:1300"

// body encodes the arguments of a call for the given protocol version.
func body(version int16, fields map[string]func(e *refcodec.Enc, tag int), order []string, tags map[string]int, jsonObj map[string]interface{}) []byte {
	switch version {
	case 1:
		var e refcodec.Enc
		for _, k := range order {
			fields[k](&e, tags[k])
		}
		return e.B
	case 3:
		// UniAttribute: map<string, vector<byte>> at tag 0, every value encoded at tag 0
		var e refcodec.Enc
		e.B = append(e.B, 0x08) // head: tag 0, type map
		e.Int(0, int64(len(order)))
		ks := append([]string(nil), order...)
		sort.Strings(ks)
		for _, k := range ks {
			var v refcodec.Enc
			fields[k](&v, 0)
			e.String(0, k)
			e.Bytes(1, v.B)
		}
		return e.B
	default:
		b, _ := json.Marshal(jsonObj)
		return b
	}
}

func (s *S) mkRequest(c *scen.Ctx, id int32, saturated bool) *reqPlan {
	p := &reqPlan{}
	version := []int16{1, 1, 3, 5}[simrt.Draw(4, "c10.version")]
	pt := int8(0)
	if simrt.Draw(6, "c10.oneway") == 5 {
		pt = 1
	}
	r := &refcodec.Request{Version: version, PacketType: pt, RequestID: id, Servant: "App.Srv.EchoObj", Context: map[string]string{}, Status: map[string]string{}}
	intF := func(v int64) func(e *refcodec.Enc, tag int) { return func(e *refcodec.Enc, tag int) { e.Int(tag, v) } }
	strF := func(v string) func(e *refcodec.Enc, tag int) { return func(e *refcodec.Enc, tag int) { e.String(tag, v) } }
	fn := simrt.Draw(8, "c10.func")
	if s.bigStrings && fn != 5 && simrt.Draw(2, "c10.bigbias") == 1 {
		fn = 2
	}
	switch fn {
	case 0, 1:
		p.kind, r.Func = "addInts", "addInts"
		p.a, p.b = id, int64(simrt.Draw(1<<20, "c10.b"))-500000
		r.Buffer = body(version, map[string]func(*refcodec.Enc, int){"a": intF(int64(p.a)), "b": intF(p.b)}, []string{"a", "b"}, map[string]int{"a": 1, "b": 2}, map[string]interface{}{"a": p.a, "b": p.b})
		p.key = fmt.Sprintf("addInts:%d", p.a)
	case 2:
		p.kind, r.Func = "echoString", "echoString"
		n := simrt.Draw(300, "c10.slen")
		if s.bigStrings {
			// responses of 140-300 KB, several of them in flight on one connection
			n = 70000 + 1000*simrt.Draw(80, "c10.bigslen")
		}
		p.str = fmt.Sprintf("s%d-%s", id, strings.Repeat("z", n))
		r.Buffer = body(version, map[string]func(*refcodec.Enc, int){"s": strF(p.str)}, []string{"s"}, map[string]int{"s": 1}, map[string]interface{}{"s": p.str})
		p.key = "echoString:" + p.str
	case 3, 4:
		p.kind, r.Func = "fail", "fail"
		p.code = []int32{0, 2, -3, 77, 100000, 1}[simrt.Draw(6, "c10.code")]
		p.str = fmt.Sprintf("boom-%d", id)
		r.Buffer = body(version, map[string]func(*refcodec.Enc, int){"code": intF(int64(p.code)), "msg": strF(p.str)}, []string{"code", "msg"}, map[string]int{"code": 1, "msg": 2}, map[string]interface{}{"code": p.code, "msg": p.str})
		p.key = "fail:" + p.str
	case 5:
		p.kind, r.Func = "slow", "slow"
		p.slowMs = []int{1, 20, 90, 110, 400, 1500}[simrt.Draw(6, "c10.slowms")]
		s.seq++
		tagged := int32(p.slowMs)<<8 | int32(s.seq&0xff)
		r.Buffer = body(version, map[string]func(*refcodec.Enc, int){"millis": intF(int64(tagged))}, []string{"millis"}, map[string]int{"millis": 1}, map[string]interface{}{"millis": tagged})
		p.key = fmt.Sprintf("slow:%d", tagged)
	case 6:
		p.kind, r.Func = "ping", "tars_ping"
		c.Count("probe.ping_request", 1)
	default:
		p.kind, r.Func = "nofunc", "noSuchFunction"
		c.Count("probe.unknown_function", 1)
	}
	// the request's own time-out: absent, generous, or (behind a saturated pool) hopelessly short
	switch simrt.Draw(4, "c10.timeout") {
	case 0:
		r.Timeout = 0
	case 1:
		r.Timeout = 60000
	case 2:
		r.Timeout = 3000
	default:
		r.Timeout = int32(5 + simrt.Draw(40, "c10.shortto"))
		if saturated && s.qcap >= 1000 {
			// unambiguous only when the request enters the pool queue at once: time spent in
			// socket buffers while the receive loop is blocked on a full queue is not queue time
			p.mustQueueTimeout = true
		} else {
			p.mayQueueTimeout = true
		}
	}
	p.req = r
	return p
}

func (s *S) Run(c *scen.Ctx) {
	s.invoked = map[string]int{}
	s.proto = []string{"tcp", "tcp", "udp"}[simrt.Draw(3, "c10.proto")]
	if v := c.Param("proto", ""); v != "" {
		s.proto = v
	}
	s.pool = []int{0, 1, 2, 4}[simrt.Draw(4, "c10.pool")]
	s.handleTO = []time.Duration{0, 0, 100 * time.Millisecond, 700 * time.Millisecond}[simrt.Draw(4, "c10.handleto")]
	qcap := []int{1000, 2, 8}[simrt.Draw(3, "c10.qcap")]
	s.qcap = qcap
	simnet.Cfg.Fragment = simrt.Draw(2, "c10.frag") == 1
	simnet.Cfg.UDPDup = simrt.Draw(2, "c10.udpdup") == 1
	simnet.Cfg.UDPLoss = simrt.Draw(3, "c10.udploss") == 2
	c.Describe("transport", s.proto)
	c.Describe("pool", s.pool)
	c.Describe("queue_cap", qcap)
	c.Describe("handle_timeout", s.handleTO.String())
	tars.VerifFreshApp()
	if s.proto == "tcp" && simrt.Draw(10, "c10.bigstrings") == 9 {
		s.bigStrings = true
		c.Count("probe.big_responses_pipelined", 1)
	}
	if simrt.Draw(3, "c10.middleware") == 2 {
		// a pass-through server filter middleware: outcomes (errors in particular) are what they are without it
		tars.UseServerFilterMiddleware(func(next tars.ServerFilter) tars.ServerFilter {
			return func(ctx context.Context, d tars.Dispatch, f interface{}, req *requestf.RequestPacket, resp *requestf.ResponsePacket, withContext bool) error {
				return next(ctx, d, f, req, resp, withContext)
			}
		})
		c.Describe("server_filter_middleware", true)
	}
	// server-side time-outs: a connection with requests in flight is neither idle nor stuck
	readTO := []time.Duration{0, 0, 100 * time.Millisecond, time.Second}[simrt.Draw(4, "c10.readto")]
	idleTO := []time.Duration{600 * time.Second, 600 * time.Second, 400 * time.Millisecond, 2 * time.Second}[simrt.Draw(4, "c10.idleto")]
	writeTO := []time.Duration{0, 3 * time.Second}[simrt.Draw(2, "c10.writeto")]
	c.Describe("server_read_timeout", readTO.String())
	c.Describe("server_idle_timeout", idleTO.String())
	conf := &transport.TarsServerConf{Proto: s.proto, Address: addr, MaxInvoke: int32(s.pool), QueueCap: qcap,
		AcceptTimeout: 500 * time.Millisecond, IdleTimeout: idleTO, ReadTimeout: readTO, WriteTimeout: writeTO, HandleTimeout: s.handleTO}
	srv, _ := tars.VerifNewServer(new(VerifAll.Echo), &imp{s}, true, conf)
	if err := srv.Listen(); err != nil {
		c.Inconclusive("listen: %v", err)
		return
	}
	simrt.GoNamed("server", func() { srv.Serve() })
	nconn := 1 + simrt.Draw(4, "c10.conns")
	c.Describe("connections", nconn)
	// saturation prologue: with a pool, first occupy every worker for a while so that later requests queue
	saturate := s.pool > 0 && s.handleTO == 0 && simrt.Draw(2, "c10.saturate") == 1
	if saturate {
		simnet.Cfg.UDPLoss = false // a lost saturating datagram would leave a worker free
	}
	c.Describe("saturate_pool_first", saturate)
	var nextID int32 = 1000
	var wg sync.WaitGroup
	for ci := 0; ci < nconn; ci++ {
		ci := ci
		var plans []*reqPlan
		if saturate && ci == 0 {
			for k := 0; k < s.pool; k++ {
				nextID++
				s.seq++
				tagged := int32(600)<<8 | int32(s.seq&0xff)
				r := &refcodec.Request{Version: 1, RequestID: nextID, Servant: "App.Srv.EchoObj", Func: "slow", Timeout: 60000, Context: map[string]string{}, Status: map[string]string{}}
				var e refcodec.Enc
				e.Int(1, int64(tagged))
				r.Buffer = e.B
				plans = append(plans, &reqPlan{req: r, kind: "slow", slowMs: 600, key: fmt.Sprintf("slow:%d", tagged), conn: ci})
			}
			c.Count("probe.pool_saturated_first", 1)
		}
		n := 1 + simrt.Draw(10, "c10.nreq")
		for k := 0; k < n; k++ {
			nextID += int32(1 + simrt.Draw(3, "c10.idgap"))
			id := nextID
			if simrt.Draw(12, "c10.negid") == 11 {
				id = -id
			}
			s.mu.Lock()
			p := s.mkRequest(c, id, saturate)
			p.conn = ci
			s.mu.Unlock()
			plans = append(plans, p)
		}
		s.mu.Lock()
		s.plans = append(s.plans, plans...)
		s.mu.Unlock()
		wg.Add(1)
		simrt.GoNamed(fmt.Sprintf("rawclient%d", ci), func() {
			defer wg.Done()
			if saturate && ci != 0 {
				simrt.Sleep(30 * time.Millisecond) // let the saturating requests reach the workers first
			}
			if s.proto == "udp" {
				u, err := simnet.ListenUDP("udp", nil)
				if err != nil {
					return
				}
				s.mu.Lock()
				s.udpCli = append(s.udpCli, u)
				s.mu.Unlock()
				sa, _ := simnet.ResolveUDPAddr("udp", addr)
				simrt.Go(func() {
					b := make([]byte, 65535)
					for {
						if _, _, err := u.ReadFromUDP(b); err != nil {
							return
						}
					}
				})
				for i, p := range plans {
					if saturate && ci == 0 && i == s.pool {
						simrt.Sleep(30 * time.Millisecond)
					}
					p.sentAt = simrt.Elapsed()
					u.WriteToUDP(refcodec.EncodeRequest(p.req), sa)
				}
				return
			}
			cn, err := simnet.Dial("tcp", addr)
			if err != nil {
				return
			}
			s.mu.Lock()
			s.conns = append(s.conns, cn.(*simnet.TCPConn))
			for _, p := range plans {
				p.conn = cn.(*simnet.TCPConn).ID
			}
			s.mu.Unlock()
			simrt.Go(func() {
				b := make([]byte, 4096)
				for {
					if _, err := cn.Read(b); err != nil {
						return
					}
				}
			})
			for i, p := range plans {
				if saturate && ci == 0 && i == s.pool {
					simrt.Sleep(30 * time.Millisecond)
				}
				p.sentAt = simrt.Elapsed()
				simrt.Event("client %d sends id=%d %s v%d type=%d timeout=%d key=%s", ci, p.req.RequestID, p.kind, p.req.Version, p.req.PacketType, p.req.Timeout, p.key)
				if _, err := cn.Write(refcodec.EncodeRequest(p.req)); err != nil {
					return
				}
				if !(saturate && ci == 0 && i < s.pool) && simrt.Draw(4, "c10.pause") == 3 {
					simrt.Sleep(time.Duration(1+simrt.Draw(50, "c10.pausems")) * time.Millisecond)
				}
			}
			if simrt.Draw(3, "c10.halfclose") == 2 {
				// the client has nothing more to send and says so (FIN); it keeps reading:
				// requests the server has read, queued ones included, are still answered
				c.Count("fault.client_half_close", 1)
				cn.(*simnet.TCPConn).CloseWrite()
			}
		})
	}
	wg.Wait()
	// every handler finishes: the slowest request (1.5s) behind a pool of one, times the number of requests
	simrt.Sleep(time.Duration(len(s.plans))*1600*time.Millisecond + 3*time.Second)
	s.mu.Lock()
	s.done = true
	s.mu.Unlock()
}

// rsp is a decoded response in either wire form.
type rsp struct {
	version int16
	ptype   int8
	id      int32
	ret     int32
	desc    string
	hasRet  bool
	buffer  []byte
}

func decodeRsp(frame []byte, reqVersionByID map[int32]int16) (*rsp, error) {
	// TUP responses are encoded as a RequestPacket; try the form the request's version implies first
	if r, err := refcodec.DecodeResponse(frame); err == nil {
		if v, ok := reqVersionByID[r.RequestID]; !ok || v != 3 || r.Version != 3 {
			return &rsp{version: r.Version, ptype: r.PacketType, id: r.RequestID, ret: r.Ret, desc: r.ResultDesc, hasRet: true, buffer: r.Buffer}, nil
		}
	}
	q, err := refcodec.DecodeRequest(frame)
	if err != nil {
		return nil, err
	}
	out := &rsp{version: q.Version, ptype: q.PacketType, id: q.RequestID, buffer: q.Buffer}
	if v, ok := q.Status["STATUS_RESULT_CODE"]; ok {
		n, _ := strconv.Atoi(v)
		out.ret, out.hasRet = int32(n), true
		out.desc = q.Status["STATUS_RESULT_DESC"]
	}
	return out, nil
}

func (s *S) Check(c *scen.Ctx, res *simrt.Result) {
	s.mu.Lock()
	defer s.mu.Unlock()
	if !s.done {
		if res.Status != "ok" {
			c.Inconclusive("run ended (%s) before the handlers finished", res.Status)
		}
		return
	}
	cfg := fmt.Sprintf("%s,pool=%v,handleTimeout=%v", s.proto, s.pool > 0, s.handleTO > 0)
	// responses and delivered requests per connection
	type side struct {
		delivered map[int32]int // request id -> times delivered to the server
		frames    [][]byte
	}
	sides := map[int]*side{}
	versions := map[int32]int16{}
	for _, p := range s.plans {
		versions[p.req.RequestID] = p.req.Version
	}
	if s.proto == "tcp" {
		for _, cn := range s.conns {
			sd := &side{delivered: map[int32]int{}}
			pr := cn.Pair
			fr, _, _ := refcodec.SplitFrames(pr.C2S.Bytes()[:pr.C2S.ReadOffset()], 0)
			for _, f := range fr {
				if q, err := refcodec.DecodeRequest(f); err == nil {
					sd.delivered[q.RequestID]++
				}
			}
			sd.frames, _, _ = refcodec.SplitFrames(pr.S2C.Bytes(), 0)
			sides[cn.ID] = sd
		}
	} else {
		// one shared server socket: judge all connections together
		sd := &side{delivered: map[int32]int{}}
		for _, pr := range simnet.UDPSockets() {
			if pr.LocalAddr().String() == addr {
				for _, d := range pr.Received {
					if q, err := refcodec.DecodeRequest(d); err == nil {
						sd.delivered[q.RequestID]++
					}
				}
				sd.frames = pr.Sent
			}
		}
		for _, p := range s.plans {
			p.conn = -1
		}
		sides[-1] = sd
	}
	for cid, sd := range sides {
		answers := map[int32][]*rsp{}
		for _, f := range sd.frames {
			r, err := decodeRsp(f, versions)
			if err != nil {
				c.Fail("C10", "undecodable-response", cfg, "the server wrote a frame the reference decoder rejects: %v (%d bytes)", err, len(f))
				continue
			}
			answers[r.id] = append(answers[r.id], r)
		}
		for _, p := range s.plans {
			if p.conn != cid {
				continue
			}
			id := p.req.RequestID
			n := sd.delivered[id]
			as := answers[id]
			ver := map[int16]string{1: "TARS", 3: "TUP", 5: "JSON"}[p.req.Version]
			key := fmt.Sprintf("%s/%s/%s", cfg, ver, p.kind)
			if p.req.PacketType == 1 {
				if len(as) > 0 {
					c.Fail("C10", "oneway-answered", key, "one-way request %d (%s) was answered %d time(s)", id, p.kind, len(as))
				}
			} else if len(as) != n {
				c.Fail("C10", "response-count", key, "request %d (%s, %s) was delivered to the server %d time(s) and answered %d time(s)", id, p.kind, ver, n, len(as))
				continue
			}
			if n == 0 {
				continue
			}
			inv := 0
			if p.key != "" {
				inv = s.invoked[p.key]
			}
			for _, a := range as {
				if a.version != p.req.Version || a.ptype != p.req.PacketType {
					c.Fail("C10", "identity-not-echoed", key, "request %d (version %d, packet type %d) was answered with version %d, packet type %d (ret %d %q)", id, p.req.Version, p.req.PacketType, a.version, a.ptype, a.ret, a.desc)
				}
			}
			if p.req.PacketType == 1 || n != 1 {
				continue // (a duplicated datagram is a second request: its outcomes are not told apart here)
			}
			a := as[0]
			queueTO := a.hasRet && a.ret == -6
			handleTO := s.handleTO > 0 && a.hasRet && a.ret == 1 && strings.Contains(a.desc, "timeout")
			if p.mustQueueTimeout && s.pool > 0 && !queueTO && p.kind != "ping" {
				c.Fail("C10", "queue-timeout-missed", key, "request %d had a %dms time-out and sat behind a pool saturated for 600ms, yet it was answered with ret=%d %q (servant invoked %d time(s))", id, p.req.Timeout, a.ret, a.desc, inv)
			}
			if queueTO {
				c.Count("probe.queue_timeout_answered", 1)
				if inv > 0 {
					c.Fail("C10", "executed-after-queue-timeout", key, "request %d was answered with the queue time-out code but the servant was invoked %d time(s)", id, inv)
				}
				if !(p.mustQueueTimeout || p.mayQueueTimeout) && (p.req.Timeout == 0 || p.req.Timeout >= 60000) {
					c.Fail("C10", "spurious-queue-timeout", key, "request %d with time-out %dms was answered with the queue time-out code", id, p.req.Timeout)
				}
				continue
			}
			if handleTO {
				c.Count("probe.handle_timeout_answered", 1)
				if !(p.kind == "slow" && time.Duration(p.slowMs)*time.Millisecond >= s.handleTO/2) && s.pool == 0 {
					c.Fail("C10", "spurious-handle-timeout", key, "request %d (%s) was answered with a handle time-out although its handler takes no time (handle time-out %v)", id, p.kind, s.handleTO)
				}
				continue
			}
			if s.handleTO > 0 && p.kind == "slow" && time.Duration(p.slowMs)*time.Millisecond > s.handleTO+50*time.Millisecond && s.pool == 0 {
				c.Fail("C10", "handle-timeout-missed", key, "request %d: the handler takes %dms, the handle time-out is %v, yet the answer is ret=%d %q", id, p.slowMs, s.handleTO, a.ret, a.desc)
			}
			switch p.kind {
			case "ping":
				if !a.hasRet || a.ret != 0 {
					if p.req.Version != 3 || a.hasRet {
						c.Fail("C10", "ping-not-success", key, "tars_ping %d was answered with ret=%d %q", id, a.ret, a.desc)
					}
				}
				if s.invoked["ping"] > 0 {
					c.Fail("C10", "ping-dispatched", key, "tars_ping reached the servant implementation")
				}
			case "fail":
				want := p.code
				if p.code == 0 {
					want = 1
				}
				if !a.hasRet || a.ret != want || a.desc != p.str {
					c.Fail("C10", "error-mapping", key, "request %d: the implementation failed with code %d message %q; the response carries ret=%d (present=%v) desc=%q", id, want, p.str, a.ret, a.hasRet, a.desc)
				}
				if inv != n {
					c.Fail("C10", "invocation-count", key, "request %d (fail) delivered %d time(s), implementation invoked %d time(s)", id, n, inv)
				}
			case "nofunc":
				if a.hasRet && a.ret == 0 {
					c.Fail("C10", "unknown-function-success", key, "request %d for an unknown function was answered with success", id)
				}
			default:
				if a.hasRet && a.ret != 0 {
					c.Fail("C10", "unexpected-error", key, "request %d (%s) was answered with ret=%d %q although the implementation succeeded", id, p.kind, a.ret, a.desc)
				}
				if inv != n {
					c.Fail("C10", "invocation-count", key, "request %d (%s) delivered %d time(s), implementation invoked %d time(s)", id, p.kind, n, inv)
				}
			}
		}
	}
}
