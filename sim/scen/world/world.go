// Package world holds what the full-stack scenarios share: client set-up with
// programmatic configuration, scripted peers that speak the wire protocol
// through the independent reference codec, and history records.
package world

import (
	"fmt"
	"sync"
	"time"

	"github.com/TarsCloud/TarsGo/tars"
	"github.com/TarsCloud/TarsGo/tars/model"
	"github.com/TarsCloud/TarsGo/tars/util/rogger"

	"verifsim/refcodec"
	"verifsim/scen"
	"verifsim/simnet"
	"verifsim/simrt"
)

func init() { scen.ExtraDump = simnet.DumpState }

// PrepareProcess is called outside the bubble by every full-stack scenario.
func PrepareProcess() {
	rogger.FlushLogger() // retire the init-time flusher goroutine (it must never touch bubble channels)
	rogger.SetLevel(rogger.OFF)
}

// ClientOpts are the client-side knobs of a run (what a config file would set).
type ClientOpts struct {
	InvokeTimeoutMs int
	ReadTimeout     time.Duration
	WriteTimeout    time.Duration
	DialTimeout     time.Duration
	IdleTimeout     time.Duration
	QueueLen        int
	CheckStatusMs   int
	RefreshMs       int
	ObjQueueMax     int32
	KeepAliveMs     int
}

// NewClient creates a fresh application + communicator inside the bubble.
func NewClient(o ClientOpts, opts ...tars.Option) *tars.Communicator {
	rogger.SetLevel(rogger.OFF)
	cc := tars.VerifFreshApp().Raw()
	if o.InvokeTimeoutMs > 0 {
		cc.AsyncInvokeTimeout = o.InvokeTimeoutMs
	}
	if o.ReadTimeout > 0 {
		cc.ClientReadTimeout = o.ReadTimeout
	}
	if o.WriteTimeout > 0 {
		cc.ClientWriteTimeout = o.WriteTimeout
	}
	if o.DialTimeout > 0 {
		cc.ClientDialTimeout = o.DialTimeout
	}
	if o.IdleTimeout > 0 {
		cc.ClientIdleTimeout = o.IdleTimeout
	}
	if o.QueueLen > 0 {
		cc.ClientQueueLen = o.QueueLen
	}
	if o.CheckStatusMs > 0 {
		cc.CheckStatusInterval = o.CheckStatusMs
	}
	if o.RefreshMs > 0 {
		cc.RefreshEndpointInterval = o.RefreshMs
	}
	if o.ObjQueueMax > 0 {
		cc.ObjQueueMax = o.ObjQueueMax
	}
	if o.KeepAliveMs > 0 {
		cc.KeepAliveInterval = o.KeepAliveMs
	}
	return tars.NewCommunicator(opts...)
}

// Prx receives the servant proxy from StringToProxy.
type Prx struct{ S model.Servant }

func (p *Prx) SetServant(s model.Servant) { p.S = s }

// Proxy returns the real *tars.ServantProxy for an object string.
func Proxy(comm *tars.Communicator, obj string) *tars.ServantProxy {
	p := &Prx{}
	comm.StringToProxy(obj, p)
	return p.S.(*tars.ServantProxy)
}

// ---- scripted server ----

// ReqRec records one request a scripted server has completely read.
type ReqRec struct {
	Conn    int
	Req     *refcodec.Request
	Raw     []byte
	Time    time.Duration
	Step    int
	Server  string
}

// SrvConn is one accepted connection of a scripted server.
type SrvConn struct {
	Srv    *Server
	C      *simnet.TCPConn
	ID     int
	mu     sync.Mutex
	closed bool
	NReq   int
	NRsp   int
	ReadErr error
	// OnPartial, if set, is called when a read leaves an incomplete frame buffered; true = the
	// peer dies now (the connection is closed with the rest of the request unread)
	OnPartial func(sc *SrvConn, buffered int) bool
	gate      chan struct{} // one writer at a time (a semaphore: blocking on a channel is a durable block in the bubble)
}

// Server is a scripted peer on the simulated network.
type Server struct {
	Addr string
	L    simnet.Listener
	// OnRequest runs on the connection's reader goroutine (a scheduler-known
	// goroutine): it may reply, close, spawn delayed replies.
	OnRequest func(sc *SrvConn, req *refcodec.Request, raw []byte)
	// OnAccept may close or stall a new connection.
	OnAccept func(sc *SrvConn) bool
	// OnGarbage is called when the stream cannot be framed/decoded.
	mu      sync.Mutex
	Conns   []*SrvConn
	Reqs    []ReqRec
	Garbage int
	Up      bool
}

// StartServer listens on addr and serves until Stop.
func StartServer(addr string, onReq func(sc *SrvConn, req *refcodec.Request, raw []byte)) (*Server, error) {
	l, err := simnet.Listen("tcp", addr)
	if err != nil {
		return nil, err
	}
	s := &Server{Addr: addr, L: l, OnRequest: onReq, Up: true}
	simrt.GoNamed("srv-accept", func() { s.acceptLoop(l) })
	return s, nil
}

func (s *Server) acceptLoop(l simnet.Listener) {
	for {
		c, err := l.Accept()
		if err != nil {
			return
		}
		sc := &SrvConn{Srv: s, C: c.(*simnet.TCPConn), gate: make(chan struct{}, 1)}
		s.mu.Lock()
		sc.ID = sc.C.ID
		s.Conns = append(s.Conns, sc)
		onAcc := s.OnAccept
		s.mu.Unlock()
		if onAcc != nil && !onAcc(sc) {
			continue
		}
		simrt.GoNamed(fmt.Sprintf("srv-conn%d", sc.ID), func() { sc.readLoop() })
	}
}

func (sc *SrvConn) readLoop() {
	var buf []byte
	tmp := make([]byte, 8192)
	for {
		n, err := sc.C.Read(tmp)
		if err != nil {
			sc.mu.Lock()
			sc.ReadErr = err
			sc.mu.Unlock()
			return
		}
		buf = append(buf, tmp[:n]...)
		frames, rest, illegal := refcodec.SplitFrames(buf, 0)
		buf = append([]byte(nil), rest...)
		for _, fr := range frames {
			req, err := refcodec.DecodeRequest(fr)
			if err != nil {
				sc.Srv.mu.Lock()
				sc.Srv.Garbage++
				sc.Srv.mu.Unlock()
				continue
			}
			raw := append([]byte(nil), fr...)
			sc.Srv.mu.Lock()
			sc.NReq++
			sc.Srv.Reqs = append(sc.Srv.Reqs, ReqRec{Conn: sc.ID, Req: req, Raw: raw, Time: simrt.Elapsed(), Step: simrt.Step(), Server: sc.Srv.Addr})
			h := sc.Srv.OnRequest
			sc.Srv.mu.Unlock()
			if h != nil {
				h(sc, req, raw)
			}
		}
		if len(buf) > 0 && !illegal && sc.OnPartial != nil && sc.OnPartial(sc, len(buf)) {
			sc.Close()
			return
		}
		if illegal {
			sc.Srv.mu.Lock()
			sc.Srv.Garbage++
			sc.Srv.mu.Unlock()
			sc.Close()
			return
		}
	}
}

// Reply writes a response frame; errors (connection gone) are returned.
func (sc *SrvConn) Reply(r *refcodec.Response) error {
	sc.gate <- struct{}{}
	defer func() { <-sc.gate }()
	_, err := sc.C.Write(refcodec.EncodeResponse(r))
	if err == nil {
		sc.mu.Lock()
		sc.NRsp++
		sc.mu.Unlock()
	}
	return err
}

// WriteRaw writes arbitrary bytes.
func (sc *SrvConn) WriteRaw(b []byte) error {
	sc.gate <- struct{}{}
	defer func() { <-sc.gate }()
	_, err := sc.C.Write(b)
	return err
}

// WriteSplit writes b in two pieces with a pause in between; nothing else is written to the
// connection meanwhile (one frame, two segments).
func (sc *SrvConn) WriteSplit(b []byte, k int, pause time.Duration) error {
	sc.gate <- struct{}{}
	defer func() { <-sc.gate }()
	if _, err := sc.C.Write(b[:k]); err != nil {
		return err
	}
	simrt.Sleep(pause)
	_, err := sc.C.Write(b[k:])
	return err
}

// Close closes the connection from the server side.
func (sc *SrvConn) Close() {
	sc.mu.Lock()
	if sc.closed {
		sc.mu.Unlock()
		return
	}
	sc.closed = true
	sc.mu.Unlock()
	sc.C.Close()
}

// Closed reports whether the server closed this connection.
func (sc *SrvConn) Closed() bool { sc.mu.Lock(); defer sc.mu.Unlock(); return sc.closed }

// Echo builds the success response that echoes the request buffer.
func Echo(req *refcodec.Request) *refcodec.Response {
	return &refcodec.Response{Version: req.Version, PacketType: req.PacketType, RequestID: req.RequestID, Buffer: req.Buffer, Status: map[string]string{}}
}

// Stop closes the listener (and, if crash, resets every connection).
func (s *Server) Stop(crash bool) {
	s.mu.Lock()
	s.Up = false
	conns := append([]*SrvConn(nil), s.Conns...)
	s.mu.Unlock()
	s.L.Close()
	for _, sc := range conns {
		if crash {
			sc.C.Pair.Reset()
		} else {
			sc.Close()
		}
	}
}

// Requests returns a copy of the request log.
func (s *Server) Requests() []ReqRec {
	s.mu.Lock()
	defer s.mu.Unlock()
	return append([]ReqRec(nil), s.Reqs...)
}

// ConnList returns the accepted connections.
func (s *Server) ConnList() []*SrvConn {
	s.mu.Lock()
	defer s.mu.Unlock()
	return append([]*SrvConn(nil), s.Conns...)
}
