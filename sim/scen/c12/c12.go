// Package c12: graceful shutdown answers every request already received.
package c12

import (
	"context"
	"fmt"
	"sort"
	"sync"
	"time"

	"github.com/TarsCloud/TarsGo/tars"
	"github.com/TarsCloud/TarsGo/tars/protocol/res/requestf"
	"github.com/TarsCloud/TarsGo/tars/transport"

	"verifsim/refcodec"
	"verifsim/scen"
	"verifsim/scen/world"
	"verifsim/simnet"
	"verifsim/simrt"
)

func init() { scen.Register("c12", func() scen.Scenario { return &S{} }) }

// disp is the servant: it sleeps for the duration encoded in the request and echoes.
type disp struct{ s *S }

func (d *disp) Dispatch(ctx context.Context, imp interface{}, req *requestf.RequestPacket, rsp *requestf.ResponsePacket, withCtx bool) error {
	ms := 0
	if len(req.SBuffer) >= 2 {
		ms = int(uint8(req.SBuffer[0]))<<8 | int(uint8(req.SBuffer[1]))
	}
	d.s.mu.Lock()
	d.s.invoked[req.IRequestId]++
	d.s.mu.Unlock()
	simrt.Sleep(time.Duration(ms) * time.Millisecond)
	*rsp = requestf.ResponsePacket{IVersion: req.IVersion, IRequestId: req.IRequestId, SBuffer: req.SBuffer, CPacketType: req.CPacketType}
	d.s.mu.Lock()
	d.s.finished[req.IRequestId] = simrt.Elapsed()
	d.s.mu.Unlock()
	return nil
}

type rawClient struct {
	idx     int
	conn    *simnet.TCPConn
	sent    []*refcodec.Request
	connAt  time.Duration
	readErr error
	eofAt   time.Duration
	// abandoned: the client reset its connection (crashed peer); nothing can be delivered to it
	halfClosed  bool // the client sent FIN after its last request: the server closes once it has answered
	abandoned   bool
	abandonedAt time.Duration
}

type S struct {
	mu        sync.Mutex
	pool      int
	invoked   map[int32]int
	finished  map[int32]time.Duration
	clients   []*rawClient
	sdStart   time.Duration
	sdReturn  time.Duration
	sdReturned bool
	sdCtx     time.Duration
	sdErr     error
	started   bool
	totalWork time.Duration
	// a second Shutdown call made while the first is draining (admin command followed by a signal)
	sd2Start, sd2Return, sd2Ctx time.Duration
	sd2Called, sd2Returned      bool
	idleTO                      time.Duration
}

func (s *S) Prepare(c *scen.Ctx) { world.PrepareProcess() }
func (s *S) YieldOff() []string {
	return []string{"tars/util/rtimer", "tars/util/rogger", "tars/selector"}
}
func (s *S) NoStalls() bool                 { return true }
func (s *S) Limits() (time.Duration, int) { return 5 * time.Minute, 2000000 }

const addr = "10.0.0.9:1200"

func (s *S) Run(c *scen.Ctx) {
	s.invoked = map[int32]int{}
	s.finished = map[int32]time.Duration{}
	s.pool = []int{0, 1, 2, 4}[simrt.Draw(4, "c12.pool")]
	if v := c.Param("pool", ""); v == "0" {
		s.pool = 0
	} else if v == "n" && s.pool == 0 {
		s.pool = 2
	}
	qcap := []int{1000, 1, 3}[simrt.Draw(3, "c12.qcap")]
	simnet.Cfg.Fragment = simrt.Draw(2, "c12.frag") == 1
	simnet.Cfg.Delay = simrt.Draw(3, "c12.delay") == 2
	tars.VerifFreshApp()
	// a handle time-out bounds a handler once it runs, not the time a request waits for a worker
	handleTO := []time.Duration{0, 0, 300 * time.Millisecond, time.Second}[simrt.Draw(4, "c12.handleto")]
	c.Describe("handle_timeout", handleTO.String())
	readTO := []time.Duration{0, 0, 100 * time.Millisecond, time.Second}[simrt.Draw(4, "c12.readto")]
	idleTO := []time.Duration{600 * time.Second, 600 * time.Second, 400 * time.Millisecond, 2 * time.Second}[simrt.Draw(4, "c12.idleto")]
	writeTO := []time.Duration{0, 0, 300 * time.Millisecond, 3 * time.Second}[simrt.Draw(4, "c12.writeto")]
	c.Describe("server_read_timeout", readTO.String())
	c.Describe("server_idle_timeout", idleTO.String())
	c.Describe("server_write_timeout", writeTO.String())
	s.idleTO = idleTO
	conf := &transport.TarsServerConf{Proto: "tcp", Address: addr, MaxInvoke: int32(s.pool), QueueCap: qcap,
		AcceptTimeout: 500 * time.Millisecond, IdleTimeout: idleTO, ReadTimeout: readTO, WriteTimeout: writeTO, HandleTimeout: handleTO}
	srv, _ := tars.VerifNewServer(&disp{s}, nil, true, conf)
	if err := srv.Listen(); err != nil {
		c.Inconclusive("listen: %v", err)
		return
	}
	simrt.GoNamed("server", func() { srv.Serve() })
	ncli := 1 + simrt.Draw(4, "c12.clients")
	c.Describe("pool", s.pool)
	c.Describe("queue_cap", qcap)
	c.Describe("clients", ncli)
	var nextID int32 = 100
	var wg sync.WaitGroup
	durs := []int{0, 1, 5, 30, 120, 400, 900, 2500}
	sdAt := time.Duration(1+simrt.Draw(600, "c12.sdat")) * time.Millisecond
	for i := 0; i < ncli; i++ {
		rc := &rawClient{idx: i, eofAt: -1}
		s.clients = append(s.clients, rc)
		nreq := simrt.Draw(8, "c12.nreq")
		var reqs []*refcodec.Request
		for k := 0; k < nreq; k++ {
			d := durs[simrt.Draw(len(durs), "c12.dur")]
			s.totalWork += time.Duration(d) * time.Millisecond
			nextID++
			pt := int8(0)
			if simrt.Draw(8, "c12.oneway") == 7 {
				pt = 1
			}
			reqs = append(reqs, &refcodec.Request{Version: 1, PacketType: pt, RequestID: nextID, Servant: "App.Srv.Obj", Func: "work",
				Buffer: []byte{byte(d >> 8), byte(d), byte(i), byte(k)}, Timeout: 60000, Context: map[string]string{}, Status: map[string]string{}})
		}
		abandonAfter := time.Duration(-1)
		if ncli > 1 && simrt.Draw(5, "c12.abandon") == 4 {
			// this client dies (connection reset) some time after sending, possibly with handlers still running for it
			abandonAfter = time.Duration(simrt.Draw(600, "c12.abandonat")) * time.Millisecond
		}
		halfClose := simrt.Draw(4, "c12.halfclose") == 3
		// the last of several clients may connect only when the shutdown begins: in the same instant,
		// a moment earlier or later (the accept loop may or may not have seen the shutdown yet)
		startDelay := time.Duration(0)
		if ncli > 1 && i == ncli-1 && simrt.Draw(3, "c12.lateconnect") == 2 {
			startDelay = sdAt + []time.Duration{-time.Millisecond, 0, 0, 0, time.Millisecond, 30 * time.Millisecond}[simrt.Draw(6, "c12.lateconnectoff")]
			c.Count("fault.client_connects_as_shutdown_begins", 1)
		}
		late := simrt.Draw(3, "c12.late") // requests sent after a pause (possibly during the drain window)
		pause := time.Duration(simrt.Draw(700, "c12.pause")) * time.Millisecond
		wg.Add(1)
		simrt.GoNamed(fmt.Sprintf("rawclient%d", i), func() {
			defer wg.Done()
			if startDelay > 0 {
				simrt.Sleep(startDelay)
			}
			cn, err := simnet.Dial("tcp", addr)
			if err != nil {
				return
			}
			rc.conn = cn.(*simnet.TCPConn)
			rc.connAt = simrt.Elapsed()
			simrt.Go(func() { // reader: consume until the server closes
				b := make([]byte, 4096)
				for {
					if _, err := cn.Read(b); err != nil {
						s.mu.Lock()
						rc.readErr, rc.eofAt = err, simrt.Elapsed()
						s.mu.Unlock()
						return
					}
				}
			})
			for k, r := range reqs {
				if late > 0 && k == len(reqs)-late {
					simrt.Sleep(pause)
				}
				if _, err := cn.Write(refcodec.EncodeRequest(r)); err != nil {
					return
				}
				s.mu.Lock()
				rc.sent = append(rc.sent, r)
				s.mu.Unlock()
			}
			if abandonAfter < 0 && halfClose {
				// nothing more to send: the client says so (FIN) and waits for its answers
				c.Count("fault.client_half_close", 1)
				s.mu.Lock()
				rc.halfClosed = true
				s.mu.Unlock()
				rc.conn.CloseWrite()
			}
			if abandonAfter >= 0 {
				simrt.Sleep(abandonAfter)
				c.Count("fault.client_resets_connection", 1)
				s.mu.Lock()
				rc.abandoned, rc.abandonedAt = true, simrt.Elapsed()
				s.mu.Unlock()
				simrt.Event("client %d resets its connection", rc.idx)
				rc.conn.Pair.Reset()
			}
		})
	}
	// shutdown at a drawn instant
	simrt.Sleep(sdAt)
	s.sdCtx = []time.Duration{20 * time.Second, 60 * time.Second, 700 * time.Millisecond, 3 * time.Second}[simrt.Draw(4, "c12.sdctx")] + 137*time.Microsecond
	c.Describe("shutdown_ctx", s.sdCtx.String())
	ctx, cancel := context.WithTimeout(context.Background(), s.sdCtx)
	s.mu.Lock()
	s.sdStart = simrt.Elapsed()
	s.started = true
	s.mu.Unlock()
	simrt.Event("Shutdown called")
	var wg2 sync.WaitGroup
	if simrt.Draw(4, "c12.second") == 3 {
		d := time.Duration(simrt.Draw(400, "c12.secondat")) * time.Millisecond
		s.sd2Ctx = 60*time.Second + 91*time.Microsecond
		wg2.Add(1)
		simrt.GoNamed("second-shutdown", func() {
			defer wg2.Done()
			simrt.Sleep(d)
			ctx2, cancel2 := context.WithTimeout(context.Background(), s.sd2Ctx)
			defer cancel2()
			c.Count("fault.second_shutdown_call", 1)
			s.mu.Lock()
			s.sd2Start, s.sd2Called = simrt.Elapsed(), true
			s.mu.Unlock()
			simrt.Event("second Shutdown called")
			srv.Shutdown(ctx2)
			s.mu.Lock()
			s.sd2Return, s.sd2Returned = simrt.Elapsed(), true
			s.mu.Unlock()
			simrt.Event("second Shutdown returned")
		})
	}
	err := srv.Shutdown(ctx)
	cancel()
	s.mu.Lock()
	s.sdReturn, s.sdReturned, s.sdErr = simrt.Elapsed(), true, err
	s.mu.Unlock()
	simrt.Event("Shutdown returned after %v", s.sdReturn-s.sdStart)
	wg.Wait()
	wg2.Wait()
	// let every handler finish and every connection close: even a single worker
	// gets through all the work in the sum of the handler durations
	simrt.Sleep(s.totalWork + 9*time.Second)
}

func (s *S) Check(c *scen.Ctx, res *simrt.Result) {
	s.mu.Lock()
	defer s.mu.Unlock()
	if !s.started {
		if res.Status != "ok" {
			c.Inconclusive("run ended (%s) before shutdown", res.Status)
		}
		return
	}
	poolKey := "pool=0"
	if s.pool > 0 {
		poolKey = "pool>0"
	}
	var lastAnswer time.Duration = s.sdStart
	allClosed := true
	for _, rc := range s.clients {
		if rc.conn == nil {
			continue
		}
		pr := rc.conn.Pair
		// requests the server has completely read
		consumed := pr.C2S.ReadOffset()
		stream := pr.C2S.Bytes()
		frames, _, _ := refcodec.SplitFrames(stream[:consumed], 0)
		rframes, _, _ := refcodec.SplitFrames(pr.S2C.Bytes(), 0)
		answered := map[int32]int{}
		gotNotice := false
		for _, f := range rframes {
			r, err := refcodec.DecodeResponse(f)
			if err != nil {
				c.Fail("C12", "undecodable-response", poolKey, "client %d received a frame the reference decoder rejects: %v", rc.idx, err)
				continue
			}
			if r.RequestID == 0 && r.ResultDesc == "_reconnect_" {
				gotNotice = true
				continue
			}
			answered[r.RequestID]++
		}
		serverClosed := pr.Server.ClosedAt >= 0
		if !serverClosed {
			allClosed = false
		}
		clientClosed := pr.Client.ClosedAt >= 0
		{
			var missing, notRun []int32
			for _, f := range frames {
				rq, err := refcodec.DecodeRequest(f)
				if err != nil {
					continue
				}
				if s.invoked[rq.RequestID] == 0 {
					notRun = append(notRun, rq.RequestID)
				}
				if rq.PacketType == 1 {
					continue
				}
				if answered[rq.RequestID] == 0 && !clientClosed && !rc.abandoned {
					missing = append(missing, rq.RequestID)
				}
				if answered[rq.RequestID] > 1 {
					c.Fail("C12", "answered-twice", poolKey, "request %d was answered %d times", rq.RequestID, answered[rq.RequestID])
				}
			}
			if len(notRun) > 0 {
				c.Fail("C12", "read-but-never-executed", poolKey, "client %d: the server read %d complete request(s) but never executed %v, although it was given %v after Shutdown returned; pool size %d; Shutdown called at %v, returned at %v; connection closed by the server: %v",
					rc.idx, len(frames), notRun, s.totalWork+9*time.Second, s.pool, s.sdStart, s.sdReturn, serverClosed)
			} else if len(missing) > 0 {
				sort.Slice(missing, func(i, j int) bool { return missing[i] < missing[j] })
				c.Fail("C12", "read-but-not-answered", poolKey, "client %d: the server read %d complete request(s) and executed them but never wrote the response of %v (connection closed by the server at %v); pool size %d; Shutdown was called at %v",
					rc.idx, len(frames), missing, pr.Server.ClosedAt, s.pool, s.sdStart)
			}
		}
		// a connection that had been idle for the server's idle time-out when it was closed was
		// closed for that reason, as it would have been without any shutdown
		idleClosed := false
		if serverClosed {
			last := rc.connAt
			for _, r := range pr.C2S.Reads {
				if r.N > 0 && r.Time > last && r.Time <= pr.Server.ClosedAt {
					last = r.Time
				}
			}
			for _, w := range pr.S2C.Writes {
				if w.N > 0 && w.Time > last && w.Time <= pr.Server.ClosedAt {
					last = w.Time
				}
			}
			idleClosed = pr.Server.ClosedAt-last >= s.idleTO
			if idleClosed {
				c.Count("probe.connection_closed_by_server_idle_timeout", 1)
			}
		}
		if serverClosed && !idleClosed {
			if rc.connAt+time.Millisecond < s.sdStart && !gotNotice && !rc.abandoned && !rc.halfClosed && (pr.Client.ClosedAt < 0 || pr.Client.ClosedAt > s.sdStart) {
				c.Fail("C12", "no-reconnect-notice", poolKey, "client %d was connected (since %v) when Shutdown was called at %v and its connection was closed by the server at %v without the reconnect notification", rc.idx, rc.connAt, s.sdStart, pr.Server.ClosedAt)
			}
			if gotNotice {
				c.Count("probe.reconnect_notice_received", 1)
			}
		}
		for _, f := range frames {
			if rq, err := refcodec.DecodeRequest(f); err == nil {
				if t, ok := s.finished[rq.RequestID]; ok && t > lastAnswer {
					lastAnswer = t
				}
				if rq.PacketType != 1 && s.invoked[rq.RequestID] == 0 && serverClosed {
					c.Count("probe.read_request_never_executed", 1)
				}
			}
		}
		if consumed > 0 && len(frames) > 0 {
			c.Count("probe.requests_read_by_server", len(frames))
		}
	}
	// Shutdown's own contract
	ctxExpiry := s.sdStart + s.sdCtx
	if !s.sdReturned {
		c.Fail("C12", "shutdown-never-returned", poolKey, "Shutdown (context %v) had not returned %v after the call (run status %s)", s.sdCtx, simrt.Elapsed()-s.sdStart, res.Status)
		return
	}
	if s.sdReturn < ctxExpiry-time.Millisecond {
		c.Count("probe.shutdown_returned_before_ctx_expiry", 1)
		for _, rc := range s.clients {
			if rc.conn == nil || rc.connAt+time.Millisecond >= s.sdStart {
				continue
			}
			pr := rc.conn.Pair
			if pr.Server.ClosedAt < 0 || pr.Server.ClosedAt > s.sdReturn {
				c.Fail("C12", "returned-before-drained", poolKey, "Shutdown returned at %v (context would expire at %v) while the connection of client %d was still open on the server side (closed at %v)", s.sdReturn, ctxExpiry, rc.idx, pr.Server.ClosedAt)
			}
		}
	} else {
		c.Count("probe.shutdown_returned_at_ctx_expiry", 1)
	}
	if s.sd2Called {
		if !s.sd2Returned {
			c.Fail("C12", "shutdown-never-returned", poolKey+",second-call", "a second Shutdown call made at %v had not returned when the run ended", s.sd2Start)
		} else if s.sd2Return < s.sd2Start+s.sd2Ctx-time.Millisecond {
			for _, rc := range s.clients {
				if rc.conn == nil || rc.connAt+time.Millisecond >= s.sdStart {
					continue
				}
				pr := rc.conn.Pair
				if pr.Server.ClosedAt < 0 || pr.Server.ClosedAt > s.sd2Return {
					c.Fail("C12", "returned-before-drained", poolKey+",second-call", "a second Shutdown call (made at %v while the first was draining) returned at %v, long before its context would expire, while the connection of client %d was still open on the server side (closed at %v)", s.sd2Start, s.sd2Return, rc.idx, pr.Server.ClosedAt)
				}
			}
		}
	}
	due := lastAnswer
	if ctxExpiry < due {
		due = ctxExpiry
	}
	_ = allClosed
	if s.sdReturn > due+5*time.Second {
		c.Fail("C12", "shutdown-late", poolKey, "Shutdown returned %v after the call; the last handler finished at %v and the context expired at %v: more than 5s after whichever came first", s.sdReturn-s.sdStart, lastAnswer, ctxExpiry)
	}
	if s.sdReturn > ctxExpiry+5*time.Second {
		c.Fail("C12", "shutdown-ignores-context", poolKey, "Shutdown returned at %v, more than 5s after its context expired at %v", s.sdReturn, ctxExpiry)
	}
}
