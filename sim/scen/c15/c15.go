// Package c15: failing endpoints leave rotation, are probed, and come back.
// It also hosts the cluster-level variant of C14 (hash-routed calls while the
// endpoint set changes because endpoints fail and recover).
package c15

import (
	"context"
	"crypto/md5"
	"fmt"
	"os"
	"sort"
	"strings"
	"sync"
	"time"

	"github.com/TarsCloud/TarsGo/tars"
	"github.com/TarsCloud/TarsGo/tars/protocol/res/endpointf"
	"github.com/TarsCloud/TarsGo/tars/protocol/res/requestf"
	"github.com/TarsCloud/TarsGo/tars/registry"
	"github.com/TarsCloud/TarsGo/tars/util/current"

	"verifsim/refcodec"
	"verifsim/scen"
	"verifsim/scen/world"
	"verifsim/simnet"
	"verifsim/simrt"
)

func init() {
	scen.Register("c15", func() scen.Scenario { return &S{} })
	scen.Register("c14c", func() scen.Scenario { return &S{hashMode: true} })
	scen.Register("c13m", func() scen.Scenario { return &S{mgrMode: true} })
}

// registrar is the scripted registry (the existing tars.Registrar seam).
type registrar struct {
	mu       sync.Mutex
	active   []endpointf.EndpointF
	inactive []endpointf.EndpointF
	calls    int
}

func (r *registrar) Registry(ctx context.Context, s *registry.ServantInstance) error   { return nil }
func (r *registrar) Deregister(ctx context.Context, s *registry.ServantInstance) error { return nil }
func (r *registrar) QueryServant(ctx context.Context, id string) ([]registry.Endpoint, []registry.Endpoint, error) {
	r.mu.Lock()
	defer r.mu.Unlock()
	r.calls++
	if os.Getenv("C15_DEBUG") != "" {
		simrt.Event("registry queried (%d)", r.calls)
	}
	return append([]endpointf.EndpointF(nil), r.active...), append([]endpointf.EndpointF(nil), r.inactive...), nil
}
func (r *registrar) QueryServantBySet(ctx context.Context, id, set string) ([]registry.Endpoint, []registry.Endpoint, error) {
	return r.QueryServant(ctx, id)
}

type phase struct {
	from, to time.Duration
	mode     string // healthy | silent | refusing | flaky | late
	noticeAt time.Duration // the server sends the reconnect notification on its connections then (0 = never)
}

type node struct {
	judgeFrom time.Duration // the failover rules are evaluated for this endpoint from here on (after a stay on the registry's inactive list)
	idx    int
	host   string
	port   int
	addr   string
	phases []phase
	srv    *world.Server
	mode   string
}

type callRec struct {
	hashType int // -1 none, 0 mod-hash, 1 consistent-hash
	code     uint32
	oneway   bool
	modList  []string // installed mod-hash list at call start
	modCache []int    // its weighted cycle (indexes into modList), if any
	conList  []string // hosts on the consistent-hash ring at call start
	activeT1 []string
	k        int
	t0, t1   time.Duration
	host     string // endpoint the client selected (from the client current)
	err      error
	arrived  bool // request seen by the server
	activeAt []string
	rrAt     []string // what the round-robin selector itself routes over, at call start and end:
	rrT1     []string // the status check updates the three selectors one after the other
	blocked  map[string]bool // hosts whose adapter was marked blocked at call start
}

type sample struct {
	t      time.Duration
	active []string
	status map[string]bool
}

type S struct {
	mu         sync.Mutex
	nodes      []*node
	calls      []*callRec
	samples    []sample
	reg        *registrar
	prx        *tars.ServantProxy
	prxs       []*tars.ServantProxy
	timeout    int
	checkMs    int
	finished   bool
	hashMode   bool
	inactive   bool
	keepAlive  int
	regChanges bool
	mgrMode    bool // C13 at manager level: the registry's list changes while calls select endpoints
	regLog     []regEvent
	refreshMs  int
}

type regEvent struct {
	t    time.Duration
	list []string
	eps  []endpointf.EndpointF
}

func (s *S) Prepare(c *scen.Ctx) { world.PrepareProcess() }
func (s *S) YieldOff() []string {
	return []string{"tars/util/rtimer", "tars/util/rogger", "tars/util/gpool"}
}
func (s *S) NoStalls() bool               { return true }
func (s *S) Limits() (time.Duration, int) { return 20 * time.Minute, 6000000 }

var hashCodes = []uint32{0, 1, 2, 3, 5, 7, 11, 0xFFFFFFFF, 0x7FFFFFFF, 0x80000000, 123456789, 987654321, 3735928559, 42, 4242424242, 1000000007}

func ms(n int) time.Duration { return time.Duration(n) * time.Millisecond }

func (n *node) modeAt(t time.Duration) string {
	for _, p := range n.phases {
		if t >= p.from && t < p.to {
			return p.mode
		}
	}
	return "healthy"
}

func (s *S) Run(c *scen.Ctx) {
	nn := 2 + simrt.Draw(4, "c15.nodes")
	s.timeout = []int{300, 200, 600}[simrt.Draw(3, "c15.timeout")]
	s.checkMs = []int{1000, 500, 2000}[simrt.Draw(3, "c15.check")]
	runLen := time.Duration(100+simrt.Draw(200, "c15.len")) * time.Second
	s.reg = &registrar{}
	// one endpoint spends a while on the registry's inactive list (an operator takes it out and puts
	// it back) before anything else happens to it
	inactNode, inactFrom, inactTo := -1, time.Duration(0), time.Duration(0)
	if !s.hashMode && !s.mgrMode && simrt.Draw(5, "c15.inactive") == 4 {
		inactNode = simrt.Draw(nn, "c15.inactwhich")
		inactFrom = time.Duration(3+simrt.Draw(10, "c15.inactfrom")) * time.Second
		inactTo = inactFrom + time.Duration(4+simrt.Draw(12, "c15.inactfor"))*time.Second
		s.inactive = true
	}
	for i := 0; i < nn; i++ {
		n := &node{idx: i, host: fmt.Sprintf("10.2.0.%d", i+1), port: 7000 + i}
		n.addr = fmt.Sprintf("%s:%d", n.host, n.port)
		// timeline: a few fault phases aligned around the thresholds of the property
		t := time.Duration(0)
		if i == inactNode {
			n.judgeFrom = inactTo + 4*time.Second
			t = n.judgeFrom
		}
		nph := simrt.Draw(4, "c15.nphases")
		if s.mgrMode && simrt.Draw(3, "c13m.faults") != 0 {
			nph = 0 // mostly healthy servers: the registry is what changes
		}
		for k := 0; k < nph; k++ {
			t += time.Duration(1+simrt.Draw(40, "c15.gap")) * time.Second
			d := []time.Duration{2 * time.Second, 4 * time.Second, 6 * time.Second, 12 * time.Second, 33 * time.Second, 45 * time.Second, 70 * time.Second, 100 * time.Second}[simrt.Draw(8, "c15.dur")]
			mode := []string{"silent", "refusing", "silent", "flaky", "late"}[simrt.Draw(5, "c15.mode")]
			ph := phase{from: t, to: t + d, mode: mode}
			if (mode == "silent" || mode == "late") && d >= 12*time.Second && simrt.Draw(3, "c15.notice") == 2 {
				// the unresponsive server announces a restart on the connections it still holds: the
				// client replaces its connection; the endpoint stays blocked until a probe is answered
				ph.noticeAt = t + time.Duration(7+simrt.Draw(int(d/time.Second)-8, "c15.noticeat"))*time.Second
				c.Count("fault.reconnect_notice_from_blocked_endpoint", 1)
			}
			n.phases = append(n.phases, ph)
			c.Count("fault.phase_"+mode, 1)
			t += d
		}
		s.nodes = append(s.nodes, n)
		s.reg.active = append(s.reg.active, endpointf.EndpointF{Host: n.host, Port: int32(n.port), Timeout: 3000, Istcp: 1, Weight: 100})
	}
	var desc []string
	for _, n := range s.nodes {
		desc = append(desc, fmt.Sprintf("%s %v", n.addr, n.phases))
	}
	c.Describe("nodes", desc)
	c.Describe("call_timeout_ms", s.timeout)
	c.Describe("status_check_ms", s.checkMs)
	c.Describe("run_length", runLen.String())
	s.refreshMs = 60000
	if s.mgrMode {
		s.refreshMs = []int{1000, 2000, 700}[simrt.Draw(3, "c13m.refresh")]
		c.Describe("registry_refresh_ms", s.refreshMs)
	}
	if s.hashMode {
		s.refreshMs = 2000
		if simrt.Draw(2, "c14c.static") == 1 { // start with static weights
			for i := range s.reg.active {
				s.reg.active[i].WeightType = 1
				s.reg.active[i].Weight = []int32{4, 8, 40, 100}[simrt.Draw(4, "c14c.w")]
			}
		}
	}
	if s.inactive {
		s.refreshMs = 1000
	} else if !s.hashMode && !s.mgrMode && simrt.Draw(3, "c15.refresh") == 0 {
		s.refreshMs = []int{1000, 2000}[simrt.Draw(2, "c15.refreshms")]
		c.Describe("registry_refresh_ms", s.refreshMs)
	}
	keepAlive := 0
	if !s.hashMode && !s.mgrMode && simrt.Draw(4, "c15.keepalive") == 3 {
		keepAlive = []int{1000, 2000, 4000}[simrt.Draw(3, "c15.keepalivems")]
	}
	c.Describe("keep_alive_ms", keepAlive)
	s.keepAlive = keepAlive
	comm := world.NewClient(world.ClientOpts{InvokeTimeoutMs: s.timeout, CheckStatusMs: s.checkMs, RefreshMs: s.refreshMs, DialTimeout: 200 * time.Millisecond, KeepAliveMs: keepAlive}, tars.Registrar(s.reg))
	for _, n := range s.nodes {
		n := n
		n.mode = "healthy"
		srv, err := world.StartServer(n.addr, func(sc *world.SrvConn, req *refcodec.Request, raw []byte) {
			switch n.modeAt(simrt.Elapsed()) {
			case "silent":
				return
			case "late": // overloaded: every answer comes after the caller has given up
				d := time.Duration(s.timeout)*time.Millisecond + time.Duration(20+simrt.Draw(600, "c15.lateby"))*time.Millisecond
				rsp := world.Echo(req)
				simrt.Go(func() { simrt.Sleep(d); sc.Reply(rsp) })
				return
			case "flaky": // answers about every other request: failures interleaved with successes
				if simrt.Draw(2, "c15.flaky") == 1 {
					return
				}
			}
			sc.Reply(world.Echo(req))
		})
		if err != nil {
			c.Inconclusive("listen: %v", err)
			return
		}
		n.srv = srv
		// phase driver: refusing = dials refused and existing connections reset
		simrt.GoNamed(fmt.Sprintf("node%d", n.idx), func() {
			for _, p := range n.phases {
				simrt.Sleep(p.from - simrt.Elapsed())
				if p.mode == "refusing" {
					simnet.SetRefuse(n.addr, true)
					for _, sc := range n.srv.ConnList() {
						sc.C.Pair.Reset()
					}
				}
				simrt.Event("%s becomes %s", n.addr, p.mode)
				if p.noticeAt > 0 {
					simrt.Sleep(p.noticeAt - simrt.Elapsed())
					for _, sc := range n.srv.ConnList() {
						sc.Reply(&refcodec.Response{Version: 1, RequestID: 0, ResultDesc: "_reconnect_", Status: map[string]string{}})
					}
					simrt.Event("%s sends the reconnect notification", n.addr)
				}
				simrt.Sleep(p.to - simrt.Elapsed())
				if p.mode == "refusing" {
					simnet.SetRefuse(n.addr, false)
				}
				simrt.Event("%s healthy again", n.addr)
			}
		})
	}
	s.logRegistry()
	if s.mgrMode {
		// the registry's answer changes over time: endpoints leave and join
		nev := 2 + simrt.Draw(10, "c13m.events")
		simrt.GoNamed("registry", func() {
			for i := 0; i < nev; i++ {
				simrt.Sleep(time.Duration(2+simrt.Draw(25, "c13m.gap"))*time.Second + 3*time.Millisecond)
				if simrt.Draw(4, "c13m.reweight") == 3 {
					// the registry changes weights only: same hosts, same ports
					s.reg.mu.Lock()
					static := simrt.Draw(3, "c13m.static") != 0
					for j := range s.reg.active {
						if static {
							s.reg.active[j].WeightType = 1
							s.reg.active[j].Weight = []int32{10, 20, 50, 100}[simrt.Draw(4, "c13m.w")]
						} else {
							s.reg.active[j].WeightType = 0
							s.reg.active[j].Weight = 100
						}
					}
					s.reg.mu.Unlock()
					c.Count("fault.registry_changes_weights_only", 1)
					s.logRegistry()
					continue
				}
				k := simrt.Draw(len(s.nodes), "c13m.which")
				n := s.nodes[k]
				s.reg.mu.Lock()
				idx := -1
				for j, e := range s.reg.active {
					if e.Host == n.host {
						idx = j
					}
				}
				if idx >= 0 && len(s.reg.active) > 1 {
					s.reg.active = append(s.reg.active[:idx:idx], s.reg.active[idx+1:]...)
					c.Count("fault.registry_removes_endpoint", 1)
				} else if idx < 0 {
					ne := endpointf.EndpointF{Host: n.host, Port: int32(n.port), Timeout: 3000, Istcp: 1, Weight: 100}
					if len(s.reg.active) > 0 {
						ne.WeightType = s.reg.active[0].WeightType
					}
					s.reg.active = append(s.reg.active, ne)
					c.Count("fault.registry_adds_endpoint", 1)
				}
				s.reg.mu.Unlock()
				s.logRegistry()
			}
		})
	}
	if !s.mgrMode && simrt.Draw(3, "c15.registry") == 0 {
		// the registry's answer changes (weights only, membership and weight type stay) while
		// the client refreshes on the same ticker grid as its status check: every change
		// makes the next refresh rebuild the selectors concurrently with checkStatus
		s.regChanges = true
		simrt.GoNamed("registry", func() {
			for simrt.Elapsed() < runLen {
				simrt.Sleep(time.Duration(1+simrt.Draw(8, "c15.reggap"))*time.Second + 3*time.Millisecond)
				s.reg.mu.Lock()
				for j := range s.reg.active {
					s.reg.active[j].Weight = []int32{100, 50, 20}[simrt.Draw(3, "c15.regw")]
				}
				s.reg.mu.Unlock()
				c.Count("fault.registry_changes_weights", 1)
				s.logRegistry()
			}
		})
	}
	if inactNode >= 0 {
		c.Count("fault.registry_lists_endpoint_inactive_then_active", 1)
		host := s.nodes[inactNode].host
		simrt.GoNamed("registry", func() {
			simrt.Sleep(inactFrom + 3*time.Millisecond)
			s.reg.mu.Lock()
			for j, e := range s.reg.active {
				if e.Host == host {
					s.reg.inactive = append(s.reg.inactive, e)
					s.reg.active = append(s.reg.active[:j:j], s.reg.active[j+1:]...)
					break
				}
			}
			s.reg.mu.Unlock()
			s.logRegistry()
			simrt.Sleep(inactTo - inactFrom)
			s.reg.mu.Lock()
			s.reg.active = append(s.reg.active, s.reg.inactive...)
			s.reg.inactive = nil
			s.reg.mu.Unlock()
			s.logRegistry()
		})
	}
	if s.hashMode && simrt.Draw(2, "c14c.flips") == 1 {
		// the registry changes the weight type / weights of all endpoints now and then
		nfl := 1 + simrt.Draw(3, "c14c.nflips")
		simrt.GoNamed("registry", func() {
			for i := 0; i < nfl; i++ {
				simrt.Sleep(time.Duration(10+simrt.Draw(60, "c14c.flipgap"))*time.Second + 3*time.Millisecond)
				s.reg.mu.Lock()
				toStatic := s.reg.active[0].WeightType == 0
				for j := range s.reg.active {
					if toStatic {
						s.reg.active[j].WeightType = 1
						s.reg.active[j].Weight = []int32{4, 8, 40, 100}[simrt.Draw(4, "c14c.w")]
					} else {
						s.reg.active[j].WeightType = 0
						s.reg.active[j].Weight = 100
					}
				}
				s.reg.mu.Unlock()
				c.Count("fault.registry_flips_weight_type", 1)
				s.logRegistry()
			}
		})
	}
	// the application may create its first two proxy objects for the servant at the same moment
	// (two components starting up): they share one endpoint manager, whichever came first
	s.prxs = nil
	if simrt.Draw(3, "c15.twoproxies") == 2 {
		done := make(chan struct{})
		var other *tars.ServantProxy
		simrt.GoNamed("otherproxy", func() {
			other = world.Proxy(comm, "App.Srv.Obj")
			close(done)
		})
		s.prx = world.Proxy(comm, "App.Srv.Obj")
		<-done
		simrt.Sleep(0)
		s.prxs = []*tars.ServantProxy{s.prx, other}
		c.Count("probe.two_proxies_created_concurrently", 1)
	} else {
		s.prx = world.Proxy(comm, "App.Srv.Obj")
		s.prxs = []*tars.ServantProxy{s.prx}
	}
	// monitor: samples the rotation once per simulated 250ms
	stop := make(chan struct{})
	simrt.GoNamed("monitor", func() {
		for {
			select {
			case <-stop:
				return
			default:
			}
			s.sample()
			simrt.Sleep(250*time.Millisecond + 13*time.Microsecond)
		}
	})
	// caller-side variations that must not change the health accounting: calls bounded by the
	// caller's own cancellation instead of a deadline, and hash-routed calls (also with codes
	// >= 2^31) among the plain ones
	cancelMode := !s.hashMode && !s.mgrMode && simrt.Draw(4, "c15.cancelmode") == 3
	someHash := !s.hashMode && !s.mgrMode && simrt.Draw(4, "c15.somehash") == 3
	someOneWay := !s.hashMode && !s.mgrMode && simrt.Draw(4, "c15.someoneway") == 3
	c.Describe("some_calls_one_way", someOneWay)
	c.Describe("calls_cancelled_by_caller", cancelMode)
	c.Describe("some_calls_hash_routed", someHash)
	nested := s.hashMode && simrt.Draw(2, "c14c.nested") == 1
	appCtx := current.ContextWithClientCurrent(context.Background())
	current.SetClientTimeout(appCtx, 10000)
	c.Describe("request_contexts_derived_from_one_parent", nested)
	// calls normally start a few microseconds off the millisecond grid, so that they never coincide
	// with the status-check and refresh tickers; in a third of the runs they sit on the grid and do
	callOffset := 7 * time.Microsecond
	if simrt.Draw(3, "c15.aligned") == 2 {
		callOffset = 0
		c.Count("probe.calls_on_the_ticker_grid", 1)
	}
	gaps := []int{50, 120, 400, 1000, 1900}
	gi := simrt.Draw(len(gaps), "c15.callgap")
	k := 0
	for simrt.Elapsed() < runLen {
		cr := &callRec{k: k, hashType: -1}
		payload := []byte(fmt.Sprintf("c15-%d", k))
		ctx := current.ContextWithClientCurrent(context.Background())
		if s.hashMode && nested {
			// request contexts derived from one application-wide client context
			ctx = current.ContextWithClientCurrent(appCtx)
		}
		if s.hashMode && simrt.Draw(8, "c14.plain") != 7 {
			cr.hashType = simrt.Draw(2, "c14.type")
			cr.code = hashCodes[simrt.Draw(len(hashCodes), "c14.code")]
			current.SetClientHash(ctx, cr.hashType, cr.code)
			if nested {
				// another request is being prepared at the same time, from the same parent, with its own code
				sib := current.ContextWithClientCurrent(appCtx)
				current.SetClientHash(sib, 1-cr.hashType, hashCodes[simrt.Draw(len(hashCodes), "c14.sibcode")])
			}
			l, cache := tars.VerifModHashState(s.prx)
			for _, e := range l {
				cr.modList = append(cr.modList, e.Host)
			}
			cr.modCache = cache
			_, cr.conList, _ = tars.VerifRotation(s.prx)
		}
		if someHash && simrt.Draw(3, "c15.hashcall") == 2 {
			current.SetClientHash(ctx, simrt.Draw(2, "c14.type"), []uint32{7, 0x80000001, 0x9E3779B9, 0xFFFFFFFF, 1000003}[simrt.Draw(5, "c15.hashcode")])
			c.Count("probe.hash_routed_call_in_failover_run", 1)
		}
		cancelCall := func() {}
		if cancelMode {
			var cctx context.Context
			cctx, cancelCall = context.WithCancel(ctx)
			ctx = cctx
			d := time.Duration(s.timeout) * time.Millisecond * 4 / 5
			stopTimer := time.AfterFunc(d, cancelCall)
			defer stopTimer.Stop()
		}
		var rsp requestf.ResponsePacket
		cr.t0 = simrt.Elapsed()
		cr.activeAt = s.activeNow()
		cr.rrAt, _, _ = tars.VerifRotation(s.prx)
		cr.blocked = map[string]bool{}
		for _, a := range tars.VerifAdapters(s.prx) {
			if !a.Status {
				cr.blocked[a.Host] = true
			}
		}
		ctype := byte(0)
		if someOneWay && simrt.Draw(4, "c15.oneway") == 3 {
			ctype, cr.oneway = 1, true
		}
		err := s.prxs[k%len(s.prxs)].TarsInvoke(ctx, ctype, "echo", payload, nil, nil, &rsp)
		cancelCall()
		cr.t1 = simrt.Elapsed()
		cr.activeT1 = s.activeNow()
		cr.rrT1, _, _ = tars.VerifRotation(s.prx)
		cr.err = err
		ip, _ := current.GetServerIPFromContext(ctx)
		cr.host = ip
		s.mu.Lock()
		s.calls = append(s.calls, cr)
		s.mu.Unlock()
		var from int
		fmt.Sscanf(c.Param("verbose", "-1"), "%d", &from)
		if c.Param("verbose", "") != "" && simrt.Elapsed() >= ms(from) {
			simrt.Event("call %d -> %s err=%v rotation-before=%v rotation-after=%v", k, ip, err != nil, cr.activeAt, s.activeNow())
		}
		if os.Getenv("C15_DEBUG") != "" {
			var ks []string
			for _, e := range tars.VerifActive(s.prx) {
				ks = append(ks, e.Key)
			}
			l, cache := tars.VerifModHashState(s.prx)
			simrt.Event("debug call %d -> %s: active %v adapters %+v modlist %d cache %d", k, ip, ks, tars.VerifAdapters(s.prx), len(l), len(cache))
		}
		k++
		g := gaps[gi]
		if simrt.Draw(5, "c15.jitter") == 4 {
			g = gaps[simrt.Draw(len(gaps), "c15.callgap")]
		}
		simrt.Sleep(ms(g) + callOffset)
	}
	close(stop)
	s.mu.Lock()
	s.finished = true
	s.mu.Unlock()
}

// propID: the cluster variant of C14 reports under C14 (a call sent to an endpoint
// outside the rotation more often than probing allows is a misrouted call).
func (s *S) propID() string {
	if s.hashMode {
		return "C14"
	}
	if s.mgrMode {
		return "C13"
	}
	return "C15"
}

func (s *S) logRegistry() {
	s.reg.mu.Lock()
	var l []string
	for _, e := range s.reg.active {
		l = append(l, e.Host)
	}
	eps := append([]endpointf.EndpointF(nil), s.reg.active...)
	s.reg.mu.Unlock()
	sort.Strings(l)
	s.mu.Lock()
	s.regLog = append(s.regLog, regEvent{simrt.Elapsed(), l, eps})
	s.mu.Unlock()
	simrt.Event("registry now lists %v", l)
}

// activeNow: the rotation is what the selectors route over. (The manager also keeps a list,
// activeEp, which it updates separately; for up to one status-check interval it can name an
// endpoint the selectors no longer contain. Judging by the list made a call that the
// all-blocked fallback sent to a random endpoint look like a premature probe: thorough tier,
// 1 run in 100 000. The three selectors are updated one after the other as well, and a refresh
// that swaps them in between can leave an endpoint in one of them for one more interval: an
// endpoint counts as in rotation while any selector still routes to it.)
func (s *S) activeNow() []string {
	rr, con, mod := tars.VerifRotation(s.prx)
	seen := map[string]bool{}
	var a []string
	for _, l := range [][]string{rr, con, mod} {
		for _, h := range l {
			if !seen[h] {
				seen[h] = true
				a = append(a, h)
			}
		}
	}
	sort.Strings(a)
	return a
}

func (s *S) sample() {
	sm := sample{t: simrt.Elapsed(), active: s.activeNow(), status: map[string]bool{}}
	for _, a := range tars.VerifAdapters(s.prx) {
		sm.status[a.Host] = a.Status
	}
	s.mu.Lock()
	s.samples = append(s.samples, sm)
	s.mu.Unlock()
}

func has(l []string, x string) bool {
	for _, y := range l {
		if y == x {
			return true
		}
	}
	return false
}

func (s *S) Check(c *scen.Ctx, res *simrt.Result) {
	s.mu.Lock()
	defer s.mu.Unlock()
	if len(s.calls) == 0 {
		if res.Status != "ok" {
			c.Inconclusive("no call completed (%s)", res.Status)
		}
		return
	}
	// which calls reached their server
	arrived := map[string]string{}
	for _, n := range s.nodes {
		for _, r := range n.srv.Requests() {
			arrived[string(r.Req.Buffer)] = n.host
		}
	}
	for _, cr := range s.calls {
		if h, ok := arrived[fmt.Sprintf("c15-%d", cr.k)]; ok {
			cr.arrived = true
			if cr.host != "" && h != cr.host {
				c.Fail(s.propID(), "harness", "routing", "call %d: client reports endpoint %s but the request arrived at %s", cr.k, cr.host, h)
			}
		}
		if cr.err != nil && strings.Contains(cr.err.Error(), "no adapter Proxy selected") {
			c.Fail(s.propID(), "not-attempted", "SelectAdapterProxy", "call %d at %v failed outright without being attempted on any endpoint: %v (rotation at that time: %v)", cr.k, cr.t0, cr.err, cr.activeAt)
		}
	}
	check := ms(s.checkMs)
	// observations of the rotation: the monitor's samples and the snapshot taken at the start of every call
	type obs struct {
		t      time.Duration
		active []string
	}
	var ob []obs
	for _, sm := range s.samples {
		ob = append(ob, obs{sm.t, sm.active})
	}
	for _, cr := range s.calls {
		ob = append(ob, obs{cr.t0, cr.activeAt})
	}
	sort.SliceStable(ob, func(i, j int) bool { return ob[i].t < ob[j].t })
	lastObs := ob[len(ob)-1].t
	inRotationDuring := func(host string, from, to time.Duration) (seenIn, seenOut bool) {
		for _, o := range ob {
			if o.t >= from && o.t <= to {
				if has(o.active, host) {
					seenIn = true
				} else {
					seenOut = true
				}
			}
		}
		return
	}
	// While every endpoint is blocked calls go to endpoints picked at random, blocked ones
	// included, and which of those calls used up a queued probe cannot be told from outside.
	// The spacing of probes is therefore judged only when the rotation has not been empty
	// during the 35s before the later probe (one probe interval plus the scheduling slack).
	recentlyEmpty := func(t time.Duration) bool {
		for _, o := range ob {
			if o.t <= t && o.t >= t-35*time.Second && len(o.active) == 0 {
				return true
			}
		}
		return false
	}
	maxGap := time.Duration(0)
	for i := 1; i < len(s.calls); i++ {
		if g := s.calls[i].t0 - s.calls[i-1].t0; g > maxGap {
			maxGap = g
		}
	}
	// Probe candidates are queued at most every 30s per endpoint and each call serves one
	// queued candidate: with k endpoints blocked at once the k-th waits k call gaps, the next
	// round's first none, so two probes of one endpoint can be (N-1) gaps closer than the
	// queueing interval (plus the whole-second clock the interval is measured with).
	maxGap *= time.Duration(len(s.nodes) - 1)
	for _, n := range s.nodes {
		if s.mgrMode {
			break // the registry takes endpoints out of rotation here: the failover rules are C15's business
		}
		failsSince, streak := 0, 0
		var streakStart time.Duration
		wasIn := true
		var lastProbe time.Duration = -1
		var outSince time.Duration = -1
		oi := 0
		for _, cr := range s.calls {
			if cr.t0 < n.judgeFrom {
				// (the registry had this endpoint on its inactive list: out of rotation for that reason)
				for oi < len(ob) && ob[oi].t <= cr.t0 {
					oi++
				}
				continue
			}
			// rotation changes observed up to the start of this call
			for oi < len(ob) && ob[oi].t <= cr.t0 {
				now := has(ob[oi].active, n.host)
				if wasIn && !now {
					outSince = ob[oi].t
					c.Count("probe.endpoint_left_rotation", 1)
					// (with keep-alive on, pings that cannot be sent are failed calls too; the harness does not see them)
					if failsSince < 2 && s.keepAlive == 0 {
						c.Fail(s.propID(), "removed-without-failures", "checkActive", "endpoint %s left the rotation at %v after only %d failed call(s) since it was (re)instated", n.host, ob[oi].t, failsSince)
					}
					lastProbe = -1
				}
				if !wasIn && now {
					c.Count("probe.endpoint_back_in_rotation", 1)
					failsSince, streak = 0, 0
					// only an answered probe brings a blocked endpoint back: some two-way call to it
					// has returned without error since it left the rotation
					answered := false
					for _, x := range s.calls {
						if x.host == n.host && x.err == nil && !x.oneway && x.t1 >= outSince && x.t1 <= ob[oi].t {
							answered = true
						}
					}
					if !answered && outSince >= 0 {
						c.Fail(s.propID(), "reinstated-without-answered-probe", "checkStatus", "endpoint %s left the rotation at %v and was back in it at %v although no call to it had been answered in between (server state then: %s)", n.host, outSince, ob[oi].t, n.modeAt(ob[oi].t))
					}
				}
				wasIn = now
				oi++
			}
			if cr.host != n.host {
				continue
			}
			// a probe goes to an endpoint that is outside the rotation because its adapter is blocked.
			// (With calls on the ticker grid a healthy endpoint that a refresh left out can be put back
			// by the status check between the snapshot and the selection: an ordinary call, not a probe.)
			isProbe := !has(cr.activeAt, n.host) && cr.blocked[n.host]
			// (both at the start and at the end of the call: a status check in the same instant may
			// have emptied the rotation between the snapshot and the selection, and then any
			// endpoint is a legitimate target)
			othersActive := len(cr.activeAt) > 0 && len(cr.activeT1) > 0
			if isProbe && othersActive {
				// a call to an endpoint outside the rotation while others are in it is a probe
				if lastProbe < 0 && outSince >= 0 && cr.t0-outSince < 29*time.Second-maxGap-500*time.Millisecond && cr.t0 > outSince+2*time.Second && !recentlyEmpty(cr.t0) {
					c.Fail(s.propID(), "probe-too-soon", "checkActive", "endpoint %s was seen out of rotation at %v and was called again at %v, only %v later, while other endpoints were in rotation: a blocked endpoint is probed no more often than every 30s", n.host, outSince, cr.t0, cr.t0-outSince)
				}
				if lastProbe >= 0 && cr.t0-lastProbe < 29*time.Second-maxGap && !recentlyEmpty(cr.t0) {
					c.Fail(s.propID(), "probe-too-often", "checkActive", "blocked endpoint %s was called at %v and again at %v (%v apart) while other endpoints were in rotation: more often than every 30s", n.host, lastProbe, cr.t0, cr.t0-lastProbe)
				}
				lastProbe = cr.t0
				if cr.oneway {
					// nothing comes back from a one-way call: it may use up the probe, it proves nothing
					c.Count("probe.oneway_call_used_as_probe", 1)
					if in, _ := inRotationDuring(n.host, cr.t1, cr.t1+time.Second); in && (n.modeAt(cr.t1) == "silent" || n.modeAt(cr.t1) == "late") && n.modeAt(cr.t1+time.Second) == n.modeAt(cr.t1) {
						c.Fail(s.propID(), "reinstated-by-oneway-call", "doInvoke", "endpoint %s answers nothing (%s); the one-way call %d, sent to it as its probe at %v, put it back into rotation", n.host, n.modeAt(cr.t1), cr.k, cr.t0)
					}
				} else if cr.err == nil {
					c.Count("probe.answered_probe", 1)
					if cr.t1+check+time.Second < lastObs {
						if in, _ := inRotationDuring(n.host, cr.t1, cr.t1+check+time.Second); !in {
							c.Fail(s.propID(), "not-reinstated", "addAliveEp", "endpoint %s answered the probe call %d (returned at %v) but was not seen back in rotation within %v", n.host, cr.k, cr.t1, check+time.Second)
						}
					}
				} else {
					c.Count("probe.unanswered_probe", 1)
					if in, _ := inRotationDuring(n.host, cr.t1, cr.t1+time.Second); in && n.modeAt(cr.t1) != "healthy" {
						c.Fail(s.propID(), "reinstated-after-failed-probe", "checkActive", "endpoint %s did not answer the probe call %d (failed at %v) and was nevertheless back in rotation within a second", n.host, cr.k, cr.t1)
					}
				}
			}
			if cr.err == nil {
				streak = 0
			} else {
				failsSince++
				if streak == 0 {
					streakStart = cr.t1
				}
				streak++
				// rule 3: >=5 failures in a row over >=5s => out after the next status check
				if !isProbe && streak >= 5 && cr.t1-streakStart >= 6*time.Second {
					from := cr.t1 + 2*check + 1500*time.Millisecond
					succeeded := false
					for _, f := range s.calls {
						if f.host == n.host && f.err == nil && f.t1 > cr.t1 && f.t1 <= from+time.Second {
							succeeded = true
						}
					}
					others := false
					for _, o := range ob {
						if o.t >= from && o.t <= from+time.Second {
							for _, h := range o.active {
								if h != n.host {
									others = true
								}
							}
						}
					}
					if in, out := inRotationDuring(n.host, from, from+time.Second); in && !out && others && !succeeded && from+time.Second < lastObs {
						c.Fail(s.propID(), "not-blocked", "checkActive", "endpoint %s failed %d calls in a row over %v (last at %v) and was still in rotation at %v although other endpoints were active", n.host, streak, cr.t1-streakStart, cr.t1, from)
					}
				}
			}
		}
	}
	// bounded liveness once faults stop: an endpoint whose server has been healthy for 75s
	// (two probe periods and slack) while calls keep flowing must be back in rotation
	for _, n := range s.nodes {
		if s.mgrMode {
			break
		}
		healthyFrom := time.Duration(0)
		for _, p := range n.phases {
			if p.to > healthyFrom {
				healthyFrom = p.to
			}
		}
		deadline := healthyFrom + 75*time.Second
		if deadline+2*time.Second > lastObs {
			continue
		}
		c.Count("probe.recovery_window_checked", 1)
		if in, _ := inRotationDuring(n.host, deadline, lastObs); !in {
			calls := 0
			wasted := false
			for _, cr := range s.calls {
				if cr.t0 >= healthyFrom && cr.t0 <= deadline {
					calls++
					// a one-way call that picked up this endpoint's probe used it up without proving anything
					if cr.oneway && cr.host == n.host {
						wasted = true
					}
				}
			}
			if wasted {
				c.Count("probe.recovery_delayed_by_oneway_probe", 1)
			}
			if calls >= 30 && !wasted {
				c.Fail(s.propID(), "never-reinstated", "checkStatus", "endpoint %s has been healthy since %v; %d calls were made in the following 75s and it still is not back in rotation at %v (it is not being probed)", n.host, healthyFrom, calls, lastObs)
			}
		}
	}
	if s.mgrMode {
		s.checkManager(c)
	}
	c.Count("probe.calls", len(s.calls))
	if s.hashMode {
		s.checkHash(c)
	}
}

// ketama builds the reference ring over hosts and looks code up: md5(host_i) for i in
// [0, rounds), four little-endian points each; rounds = 25 without static weights,
// max(1, w/4) for a positive static weight w, none for w <= 0.
func ketama(hosts []string, weights map[string]int32, weighted bool, code uint32) string {
	type pt struct {
		p uint32
		h string
	}
	var pts []pt
	for _, h := range hosts {
		rounds := 25
		if weighted {
			w := weights[h]
			if w <= 0 {
				continue
			}
			rounds = int(w) / 4
			if rounds == 0 {
				rounds = 1
			}
		}
		for i := 0; i < rounds; i++ {
			d := md5.Sum([]byte(fmt.Sprintf("%s_%d", h, i)))
			for k := 0; k < 4; k++ {
				pts = append(pts, pt{uint32(d[4*k]) | uint32(d[4*k+1])<<8 | uint32(d[4*k+2])<<16 | uint32(d[4*k+3])<<24, h})
			}
		}
	}
	if len(pts) == 0 {
		return ""
	}
	sort.Slice(pts, func(i, j int) bool { return pts[i].p < pts[j].p })
	i := sort.Search(len(pts), func(i int) bool { return pts[i].p >= code })
	if i == len(pts) {
		i = 0
	}
	return pts[i].h
}

func describeStates(st []regEvent) string {
	out := ""
	for _, e := range st {
		out += fmt.Sprintf("[from %v:", e.t)
		for _, ep := range e.eps {
			out += fmt.Sprintf(" %s(type %d, weight %d)", ep.Host, ep.WeightType, ep.Weight)
		}
		out += "]"
	}
	return out
}

// regStates returns the registry answers that may have been the client's view at some
// point of [from, to].
func (s *S) regStates(from, to time.Duration) []regEvent {
	var out []regEvent
	for i, e := range s.regLog {
		end := time.Duration(1<<62 - 1)
		if i+1 < len(s.regLog) {
			end = s.regLog[i+1].t
		}
		if e.t <= to && end >= from {
			out = append(out, e)
		}
	}
	return out
}

// checkHash: every hash-routed call goes where the reference predicts from the
// rotation at selection time (C14, cluster level).
func (s *S) checkHash(c *scen.Ctx) {
	checked := 0
	lastFor := map[string]string{} // (type,code,set) -> host
	for _, cr := range s.calls {
		if cr.hashType < 0 || cr.host == "" {
			continue
		}
		if !has(cr.activeAt, cr.host) {
			c.Count("probe.hash_call_used_as_health_probe", 1)
			continue // the call was used as the probe of a blocked endpoint (C15)
		}
		// candidate views: the rotation at the start and at the end of the call x every registry
		// answer (weights, weight type) the client may have been working with
		lag := time.Duration(s.refreshMs)*time.Millisecond + 1500*time.Millisecond
		ok := false
		var want []string
		// (the manager updates its endpoint list and the three selectors one after the other under a
		// lock the selecting call does not take: the list installed in the mod-hash selector at the
		// start of the call is a third legitimate view of "the current set")
		inSel := append([]string(nil), cr.modList...)
		sort.Strings(inSel)
		if cr.hashType == 1 {
			inSel = cr.conList
		}
		for _, set := range [][]string{cr.activeAt, cr.activeT1, inSel} {
			if len(set) == 0 {
				ok = true // nothing in rotation: any endpoint may be tried (C15)
				continue
			}
			for _, st := range s.regStates(cr.t0-lag, cr.t1) {
				weights := map[string]int32{}
				weighted := true
				for _, e := range st.eps {
					weights[e.Host] = e.Weight
					if e.WeightType != 1 {
						weighted = false
					}
				}
				var w string
				if cr.hashType == 1 {
					w = ketama(set, weights, weighted, cr.code)
				} else {
					l := cr.modList
					if len(l) != len(set) {
						ok = true // the list changed between the snapshots: not judged
						continue
					}
					switch {
					case weighted && len(cr.modCache) > 0:
						w = l[cr.modCache[int(cr.code%uint32(len(cr.modCache)))]]
					case weighted:
						w = "<no weighted cycle installed although every listed endpoint has a static weight>"
					case len(cr.modCache) > 0:
						w = "<weighted cycle installed although the registry lists no static weights>"
					default:
						w = l[int(cr.code%uint32(len(l)))]
					}
				}
				want = append(want, w)
				if w == cr.host {
					ok = true
				}
			}
		}
		checked++
		if !ok {
			kind := "consistent-hash"
			if cr.hashType == 0 {
				kind = "mod-hash"
			}
			c.Fail("C14", "misrouted", kind, "call %d with %s code %d went to %s; the rotation was %v at its start and %v at its end, for which the reference gives %v (installed mod-hash list %v); the call ran from %v to %v and the registry answered %s", cr.k, kind, cr.code, cr.host, cr.activeAt, cr.activeT1, want, cr.modList, cr.t0, cr.t1, describeStates(s.regStates(cr.t0-lag, cr.t1)))
		}
		if sts := s.regStates(cr.t0-lag, cr.t1); sameSet(cr.activeAt, cr.activeT1) && len(sts) == 1 {
			// same rotation and same registry answer (weights, weight type): same endpoint
			key := fmt.Sprintf("%d|%d|%v|%v|%v", cr.hashType, cr.code, cr.activeAt, cr.modList, sts[0].t)
			if prev, ok := lastFor[key]; ok && prev != cr.host {
				c.Fail("C14", "unstable", "routing", "code %d (type %d) went to %s and later to %s while the rotation %v was unchanged", cr.code, cr.hashType, prev, cr.host, cr.activeAt)
			}
			lastFor[key] = cr.host
		}
	}
	c.Count("probe.hash_routed_calls_checked", checked)
}

func sameSet(a, b []string) bool {
	if len(a) != len(b) {
		return false
	}
	for i := range a {
		if a[i] != b[i] {
			return false
		}
	}
	return true
}

// checkManager (C13 at manager level): calls only go to endpoints the registry listed
// recently, and over an unchanged, healthy N-endpoint rotation any N consecutive calls hit
// each endpoint exactly once.
func (s *S) checkManager(c *scen.Ctx) {
	lag := time.Duration(s.refreshMs)*time.Millisecond + 1500*time.Millisecond
	listedDuring := func(host string, from, to time.Duration) bool {
		for i, e := range s.regLog {
			end := time.Duration(1<<62 - 1)
			if i+1 < len(s.regLog) {
				end = s.regLog[i+1].t
			}
			if e.t <= to && end >= from && has(e.list, host) {
				return true
			}
		}
		return false
	}
	for _, cr := range s.calls {
		if cr.host == "" {
			continue
		}
		if !has(cr.activeAt, cr.host) {
			// outside the rotation at selection time: a health probe (C15), possibly one that was
			// queued before the registry dropped the endpoint; not a selection by a strategy
			c.Count("probe.manager_call_outside_rotation", 1)
			continue
		}
		if !listedDuring(cr.host, cr.t0-lag, cr.t1) {
			c.Fail("C13", "not-a-member", "endpointManager", "call %d at %v went to %s, which the registry had not listed for %v (refresh interval %dms); registry history: %v", cr.k, cr.t0, cr.host, lag, s.refreshMs, s.regLog)
			return
		}
	}
	// strict rotation over unchanged stretches
	stableFrom := func(t time.Duration) time.Duration { // last registry change before t
		var last time.Duration
		for _, e := range s.regLog {
			if e.t <= t {
				last = e.t
			}
		}
		return last
	}
	stateAt := func(t time.Duration) *regEvent {
		var st *regEvent
		for k := range s.regLog {
			if s.regLog[k].t <= t {
				st = &s.regLog[k]
			}
		}
		return st
	}
	for i := 0; i < len(s.calls); i++ {
		set := s.calls[i].activeAt
		n := len(set)
		if n < 2 {
			continue
		}
		// what one full cycle over this rotation contains: each endpoint once, or with static weights
		// W_i > 0 on every listed endpoint max(1, floor(W_i*R/W_max)) times, R = min(100, max(10, W_max/W_min))
		want := map[string]int{}
		for _, h := range set {
			want[h] = 1
		}
		if st := stateAt(s.calls[i].t0); st != nil {
			static, loop := true, true
			w := map[string]int32{}
			for _, e := range st.eps {
				w[e.Host] = e.Weight
				if e.WeightType == 1 && e.Weight > 0 {
					loop = false
				} else {
					static = false
				}
			}
			if !static && !loop {
				continue
			}
			if static {
				var wmax, wmin int32 = 0, 1 << 30
				for _, h := range set {
					if w[h] > wmax {
						wmax = w[h]
					}
					if w[h] < wmin {
						wmin = w[h]
					}
				}
				if wmin <= 0 {
					continue
				}
				R := int(wmax / wmin)
				if R < 10 {
					R = 10
				}
				if R > 100 {
					R = 100
				}
				n = 0
				for _, h := range set {
					k := int(w[h]) * R / int(wmax)
					if k < 1 {
						k = 1
					}
					want[h] = k
					n += k
				}
				c.Count("probe.weighted_rotation_windows_considered", 1)
			}
		}
		if i+n > len(s.calls) {
			continue
		}
		ok := true
		seen := map[string]int{}
		for j := i; j < i+n; j++ {
			cr := s.calls[j]
			if !sameSet(cr.activeAt, set) || !sameSet(cr.activeT1, set) || !sameSet(cr.rrAt, set) || !sameSet(cr.rrT1, set) || cr.host == "" || !has(set, cr.host) {
				ok = false
				break
			}
			seen[cr.host]++
		}
		// the rotation must not have been rebuilt inside the window (a refresh that sees a
		// changed list rebuilds the selectors and restarts the cursor at a random position)
		if !ok || stableFrom(s.calls[i+n-1].t1)+lag > s.calls[i].t0 {
			continue
		}
		c.Count("probe.rotation_windows_checked", 1)
		for _, h := range set {
			if seen[h] != want[h] {
				c.Fail("C13", "rotation", "endpointManager", "calls %d..%d: %d consecutive calls (one full cycle) over the unchanged rotation %v hit %s %d times instead of %d (all: %v, expected: %v; registry: %s)", s.calls[i].k, s.calls[i+n-1].k, n, set, h, seen[h], want[h], seen, want, describeStates(s.regStates(s.calls[i].t0, s.calls[i].t0)))
				return
			}
		}
	}
}
