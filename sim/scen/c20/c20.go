// Package c20: flush writes every log entry logged before it, once and in order.
package c20

import (
	"context"
	"fmt"
	"os"
	"path/filepath"
	"regexp"
	"strings"
	"sync"
	"time"

	"github.com/TarsCloud/TarsGo/tars"
	"github.com/TarsCloud/TarsGo/tars/util/current"
	"github.com/TarsCloud/TarsGo/tars/util/rogger"

	"verifsim/scen"
	"verifsim/simrt"
)

func init() { scen.Register("c20", func() scen.Scenario { return &S{} }) }

type rec struct {
	data string
	step int
}

type writer struct {
	mu     sync.Mutex
	name   string
	prefix bool
	slowNs time.Duration
	got    []rec
	roller *rogger.RollFileWriter
	dir    string
	file   string // the logger writes through the framework's own file roller (SetFileRoller): the file to read back
}

// collect reads the roller's files, oldest first, into got (one record per entry found).
func (w *writer) collect() {
	if w.roller == nil && w.file == "" {
		return
	}
	var names []string
	for i := 60; i >= 1; i-- {
		names = append(names, fmt.Sprintf("roll%d.log", i))
	}
	names = append(names, "roll.log")
	if w.file != "" {
		names = []string{w.file}
	}
	w.mu.Lock()
	w.got = nil
	for _, n := range names {
		b, err := os.ReadFile(filepath.Join(w.dir, n))
		if err != nil {
			continue
		}
		for _, m := range tokRe.FindAllString(string(b), -1) {
			w.got = append(w.got, rec{m, 0})
		}
	}
	w.mu.Unlock()
}

func (w *writer) Write(v []byte) {
	if w.slowNs > 0 {
		simrt.Sleep(w.slowNs)
	}
	if w.roller != nil {
		// the framework's own size-rolling file writer: what counts is what ends up in the files
		w.roller.Write(v)
		return
	}
	w.mu.Lock()
	w.got = append(w.got, rec{string(v), simrt.Step()})
	w.mu.Unlock()
}
func (w *writer) NeedPrefix() bool { return w.prefix }

type entry struct {
	id       string
	g, k     int
	w        int // writer index
	returned bool
	retStep  int
	callStep int
}

type S struct {
	writers    []*writer
	entries    []*entry
	mu         sync.Mutex
	atFlush    map[string]bool // entries returned before the flush was requested
	flushReq   int
	flushRet   int
	flushDur   time.Duration
	flushed    bool
	gotAtRet   [][]rec // writer records when FlushLogger returned
	qAtFlush   int
	panicMode  bool
	exitSeen   bool
	fileLogger bool
	// writer switch: logger swLogger gets writer swTo (index into writers) between steps swFrom and swDone
	swLogger       int
	swTo           int
	swFrom, swDone int
}

func (s *S) Prepare(c *scen.Ctx) {
	rogger.FlushLogger() // retire the init-time flusher (outside the bubble)
}
func (s *S) YieldOff() []string {
	return []string{"tars/util/rtimer", "tars/transport", "tars/selector", "tars/util/gpool"}
}
func (s *S) NoStalls() bool               { return true } // a flusher stalled past the flush timeout loses entries legitimately
func (s *S) Limits() (time.Duration, int) { return 30 * time.Second, 200000 }

var tokRe = regexp.MustCompile(`<<g(\d+)-(\d+)>>`)

func (s *S) Run(c *scen.Ctx) {
	rogger.SetLevel(rogger.DEBUG)
	qcap := []int{10000, 1, 2, 5, 64}[simrt.Draw(5, "c20.qcap")]
	rogger.VerifReset(qcap)
	nw := 1 + simrt.Draw(2, "c20.writers")
	for i := 0; i < nw; i++ {
		w := &writer{name: fmt.Sprintf("w%d", i), prefix: simrt.Draw(2, "c20.prefix") == 1}
		if simrt.Draw(6, "c20.slow") == 5 {
			w.slowNs = time.Duration(1+simrt.Draw(5, "c20.slowns")) * time.Millisecond
			c.Count("fault.slow_writer", 1)
		}
		if i == 0 && simrt.Draw(5, "c20.roller") == 4 {
			if dir, err := os.MkdirTemp("", "vsim-c20-roll"); err == nil {
				w.dir, w.roller = dir, rogger.VerifNewSmallRoller(dir, "roll", 60, int64(60+40*simrt.Draw(6, "c20.rollsize")))
				c.Count("probe.size_rolling_file_writer", 1)
			}
		}
		s.writers = append(s.writers, w)
	}
	loggers := make([]*rogger.Logger, nw)
	for i := range loggers {
		loggers[i] = rogger.GetLogger(fmt.Sprintf("verif%d", i))
		loggers[i].SetWriter(s.writers[i])
		if i == 0 && s.writers[0].roller == nil && simrt.Draw(5, "c20.fileroller") == 4 {
			// configured the way an application does it, through SetFileRoller; it may be configured
			// again later (a reload with other limits) while entries are still queued
			if dir, err := os.MkdirTemp("", "vsim-c20-file"); err == nil {
				s.writers[0].dir, s.writers[0].file = dir, "verif0.log"
				loggers[0].SetFileRoller(dir, 10, 1)
				s.fileLogger = true
				c.Count("probe.logger_configured_with_SetFileRoller", 1)
			}
		}
	}
	if simrt.Draw(6, "c20.gracerestart") == 5 {
		// a graceful restart was requested earlier: the process has started its successor and goes on
		// serving and logging until it exits
		c.Count("fault.graceful_restart_before_logging", 1)
		if cfg := tars.GetServerConfig(); cfg != nil {
			// (a process started without a configuration file has no log directory: give it one)
			cfg.LogPath, cfg.App, cfg.Server = filepath.Join(os.TempDir(), "vsim-c20-logs"), "App", "Srv"
		}
		tars.VerifGraceRestart()
	}
	ng := 1 + simrt.Draw(4, "c20.goroutines")
	per := 1 + simrt.Draw(6, "c20.per")
	total := ng * per
	flushAfter := simrt.Draw(total+1, "c20.flushafter") // flush once this many log calls have returned
	s.panicMode = simrt.Draw(8, "c20.panic") == 7
	c.Describe("goroutines", ng)
	c.Describe("entries_per_goroutine", per)
	c.Describe("flush_after_returned", flushAfter)
	c.Describe("queue_cap", qcap)
	c.Describe("writers", nw)
	c.Describe("panic_exit", s.panicMode)
	// a logger is given another writer while entries may still be queued for the old one: an
	// entry belongs to the writer its logger had when it was logged
	s.swLogger, s.swFrom, s.swDone = -1, -1, -1
	switchAfter := -1
	reconfAfter := -1
	if s.fileLogger && simrt.Draw(2, "c20.reconf") == 1 {
		reconfAfter = simrt.Draw(total+1, "c20.reconfafter")
		c.Count("fault.file_roller_reconfigured_with_backlog", 1)
	}
	if !s.panicMode && !s.fileLogger && simrt.Draw(4, "c20.switch") == 3 {
		s.swLogger = simrt.Draw(nw, "c20.switchwhich")
		nwr := &writer{name: "switched", prefix: s.writers[s.swLogger].prefix}
		s.writers = append(s.writers, nwr)
		s.swTo = len(s.writers) - 1
		switchAfter = simrt.Draw(total+1, "c20.switchafter")
		c.Count("fault.writer_replaced_with_backlog", 1)
	}
	// dyed requests: their entries are also offered to the dyeing queue, which the application is
	// supposed to consume; in half of the runs nobody does and the queue is full
	dyed := current.ContextWithTarsCurrent(context.Background())
	current.SetDyeingKey(dyed, "user-7")
	anyDyed := false
	if simrt.Draw(2, "c20.dyequeuefull") == 1 {
		q := rogger.GetDyeingLogQueue()
		for len(*q) < cap(*q) {
			*q <- nil
		}
		c.Count("fault.dyeing_queue_full", 1)
	}
	var returnedCalls int
	tick := make(chan struct{}, total+1)
	var wg sync.WaitGroup
	for g := 0; g < ng; g++ {
		g := g
		wg.Add(1)
		wi := simrt.Draw(nw, "c20.which")
		kind := simrt.Draw(5, "c20.kind")
		if kind == 4 && !anyDyed {
			anyDyed = true
			c.Count("probe.entries_of_dyed_requests", 1)
		}
		simrt.GoNamed(fmt.Sprintf("logger%d", g), func() {
			defer wg.Done()
			for k := 0; k < per; k++ {
				e := &entry{id: fmt.Sprintf("<<g%d-%d>>", g, k), g: g, k: k, w: wi}
				s.mu.Lock()
				s.entries = append(s.entries, e)
				e.callStep = simrt.Step()
				s.mu.Unlock()
				switch kind {
				case 0:
					loggers[wi].WriteLog([]byte(e.id))
				case 1:
					loggers[wi].Debugf("entry %s", e.id)
				case 3:
					loggers[wi].Trace("trace " + e.id + strings.Repeat(".", k%3))
				case 4:
					// a dyed request: the entry goes to the logger's own log and, as a copy, to the dyeing queue
					loggers[wi].DyeingInfof(dyed, nil, "entry %s", e.id)
				default:
					loggers[wi].Info("entry ", e.id)
				}
				s.mu.Lock()
				e.returned = true
				e.retStep = simrt.Step()
				returnedCalls++
				doSwitch := returnedCalls == switchAfter
				doReconf := returnedCalls == reconfAfter
				s.mu.Unlock()
				if doReconf {
					loggers[0].SetFileRoller(s.writers[0].dir, 12, 2)
				}
				if doSwitch {
					s.mu.Lock()
					s.swFrom = simrt.Step()
					s.mu.Unlock()
					loggers[s.swLogger].SetWriter(s.writers[s.swTo])
					s.mu.Lock()
					s.swDone = simrt.Step()
					s.mu.Unlock()
				}
				tick <- struct{}{}
			}
		})
	}
	for i := 0; i < flushAfter; i++ {
		<-tick
	}
	simrt.Sleep(0)
	s.mu.Lock()
	s.atFlush = map[string]bool{}
	for _, e := range s.entries {
		if e.returned {
			s.atFlush[e.id] = true
		}
	}
	s.flushReq = simrt.Step()
	s.qAtFlush = rogger.VerifQueueLen()
	s.mu.Unlock()
	if s.qAtFlush > 0 {
		c.Count("probe.queue_nonempty_at_flush", 1)
	}
	if len(s.atFlush) < total {
		c.Count("probe.flush_while_logging", 1)
	}
	simrt.Event("flush requested: %d entries returned, %d queued", len(s.atFlush), s.qAtFlush)
	t0 := time.Now()
	if s.panicMode {
		c.Count("probe.panic_exit_path", 1)
		if simrt.Draw(2, "c20.twopanics") == 1 {
			// the same bug hit by two goroutines: the second panic arrives while the first is being handled
			c.Count("fault.second_panic_during_exit", 1)
			d := time.Duration(simrt.Draw(4, "c20.secondpanic")) * time.Millisecond
			simrt.Go(func() {
				defer tars.CheckPanic()
				simrt.Sleep(d)
				panic("verif: second deliberate panic")
			})
		}
		func() {
			defer tars.CheckPanic() // dumps, flushes, exits (simrt.Exit -> Check)
			panic("verif: deliberate panic after logging")
		}()
		return
	}
	rogger.FlushLogger()
	s.snapshotAtReturn(time.Since(t0))
	simrt.Event("flush returned after %v", s.flushDur)
	// let the loggers finish (their entries after the flush have no guarantee)
	done := make(chan struct{})
	simrt.Go(func() { wg.Wait(); close(done) })
	select {
	case <-done:
	case <-time.After(5 * time.Second):
	}
	simrt.Sleep(0)
}

func (s *S) snapshotAtReturn(d time.Duration) {
	s.mu.Lock()
	s.flushed = true
	s.flushRet = simrt.Step()
	s.flushDur = d
	for _, w := range s.writers {
		w.collect()
		w.mu.Lock()
		s.gotAtRet = append(s.gotAtRet, append([]rec(nil), w.got...))
		w.mu.Unlock()
	}
	s.mu.Unlock()
}

func (s *S) Check(c *scen.Ctx, res *simrt.Result) {
	if s.panicMode {
		c.ExpectExit()
	}
	if res.Status == "exit" && s.panicMode {
		// CheckPanic flushed and called os.Exit: what the writers hold now is
		// everything that will ever be written.
		s.snapshotAtReturn(0)
		s.exitSeen = true
	}
	if s.atFlush == nil {
		if res.Status != "ok" {
			c.Inconclusive("run ended (%s) before the flush was requested", res.Status)
		}
		return
	}
	if !s.flushed {
		c.Fail("C20", "flush-returns", "FlushLogger", "FlushLogger did not return (run status %s); %d entries were logged before it", res.Status, len(s.atFlush))
		return
	}
	slow := false
	for _, w := range s.writers {
		if w.slowNs > 0 {
			slow = true
		}
	}
	if s.flushDur > 1100*time.Millisecond {
		c.Fail("C20", "flush-timeout", "FlushLogger", "FlushLogger took %v, more than the flush timeout", s.flushDur)
	}
	// exactly once before the flush returned
	count := map[string]int{}
	for wi, got := range s.gotAtRet {
		lastK := map[int]int{}
		for _, r := range got {
			ms := tokRe.FindAllString(r.data, -1)
			if len(ms) != 1 {
				c.Fail("C20", "undivided-write", "writer", "writer %d received a buffer that is not exactly one entry: %q", wi, r.data)
				continue
			}
			count[ms[0]]++
			var g, k int
			fmt.Sscanf(ms[0], "<<g%d-%d>>", &g, &k)
			if prev, ok := lastK[g]; ok && k <= prev {
				c.Fail("C20", "order", "writer", "writer %d got entry %s after entry %d of the same goroutine", wi, ms[0], prev)
			}
			lastK[g] = k
		}
	}
	if s.swLogger >= 0 && s.swFrom >= 0 {
		where := map[string]int{}
		for wi, w := range s.writers {
			for _, r := range w.got {
				for _, m := range tokRe.FindAllString(r.data, -1) {
					where[m] = wi
				}
			}
		}
		for _, e := range s.entries {
			wi, ok := where[e.id]
			if !ok || e.w != s.swLogger {
				continue
			}
			if e.returned && e.retStep < s.swFrom && wi != e.w {
				c.Fail("C20", "wrong-writer", "SetWriter", "entry %s was logged (call returned at step %d) before its logger was given another writer (step %d) and was handed to the new writer instead of its own", e.id, e.retStep, s.swFrom)
			}
			if s.swDone >= 0 && e.callStep > s.swDone && wi != s.swTo {
				c.Fail("C20", "wrong-writer", "SetWriter", "entry %s was logged (call began at step %d) after its logger had been given another writer (step %d) and was handed to the old writer", e.id, e.callStep, s.swDone)
			}
		}
	}
	var lost []string
	for _, e := range s.entries {
		n := count[e.id]
		if n > 1 {
			c.Fail("C20", "duplicate", "writer", "entry %s was handed to its writer %d times", e.id, n)
		}
		if s.atFlush[e.id] && n == 0 {
			lost = append(lost, e.id)
		}
	}
	if len(lost) > 0 && !(slow && s.flushDur >= time.Second) {
		key := "flush"
		if s.exitSeen {
			key = "panic-exit"
		}
		c.Fail("C20", "lost-before-flush", key, "%d of %d entries whose logging call had returned before the flush was requested were not written when the flush returned (queue held %d at the request): %s",
			len(lost), len(s.atFlush), s.qAtFlush, strings.Join(lost, " "))
	}
	// after the run: still nothing twice
	for wi, w := range s.writers {
		w.collect()
		if w.dir != "" {
			os.RemoveAll(w.dir)
		}
		seen := map[string]int{}
		for _, r := range w.got {
			for _, m := range tokRe.FindAllString(r.data, -1) {
				seen[m]++
				if seen[m] == 2 {
					c.Fail("C20", "duplicate", "writer", "entry %s written twice by writer %d", m, wi)
				}
			}
		}
	}
}
