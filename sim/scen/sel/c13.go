// Package sel holds the selector-level scenarios: C13 (members only, rotation,
// weights, no crash) and C14 (hash routing).
package sel

import (
	"fmt"
	"sort"
	"strings"
	"sync"
	"time"

	"github.com/anishathalye/porcupine"

	"github.com/TarsCloud/TarsGo/tars/selector"
	"github.com/TarsCloud/TarsGo/tars/selector/consistenthash"
	"github.com/TarsCloud/TarsGo/tars/selector/modhash"
	"github.com/TarsCloud/TarsGo/tars/selector/random"
	"github.com/TarsCloud/TarsGo/tars/selector/roundrobin"
	"github.com/TarsCloud/TarsGo/tars/util/endpoint"

	"verifsim/scen"
	"verifsim/simrt"
)

func init() { scen.Register("c13", func() scen.Scenario { return &C13{} }) }

type msg struct {
	code uint32
	h    bool
}

func (m msg) HashCode() uint32            { return m.code }
func (m msg) HashType() selector.HashType { return selector.ConsistentHash }
func (m msg) IsHash() bool                { return m.h }

var strategies = []string{"roundrobin", "random", "modhash", "consistenthash"}

func newSelector(kind string, weighted bool) selector.Selector {
	switch kind {
	case "roundrobin":
		return roundrobin.New(weighted)
	case "random":
		return random.New(weighted)
	case "modhash":
		return modhash.New(weighted)
	default:
		return consistenthash.New(weighted, consistenthash.KetamaHash)
	}
}

func mkEp(i int, w int32, wt int32) endpoint.Endpoint {
	host := fmt.Sprintf("10.1.0.%d", i+1)
	e := endpoint.Endpoint{Host: host, Port: int32(9000 + i), Timeout: 3000, Istcp: 1, Proto: "tcp", Weight: w, WeightType: wt}
	e.Key = e.String()
	return e
}

// ---- history for porcupine ----

type opIn struct {
	kind    string // select | add | remove | refresh
	eps     []endpoint.Endpoint
	variant *endpoint.Endpoint // remove: what is actually passed (same host, newer descriptor)
}

func (in opIn) arg() endpoint.Endpoint {
	if in.variant != nil {
		return *in.variant
	}
	return in.eps[0]
}
type opOut struct {
	host string
	err  bool
}

// model state: "host=weight,host=weight" sorted by host
func encState(m map[string]int32) string {
	var ks []string
	for k, w := range m {
		ks = append(ks, fmt.Sprintf("%s=%d", k, w))
	}
	sort.Strings(ks)
	return strings.Join(ks, ",")
}
func decState(s string) map[string]int32 {
	m := map[string]int32{}
	if s == "" {
		return m
	}
	for _, kv := range strings.Split(s, ",") {
		i := strings.IndexByte(kv, '=')
		var w int32
		fmt.Sscanf(kv[i+1:], "%d", &w)
		m[kv[:i]] = w
	}
	return m
}

// memberModel: state = member set; Select returns a member, or an error only
// if no endpoint is eligible.
func memberModel(kind string, weighted bool) porcupine.Model {
	eligible := func(m map[string]int32, host string) bool {
		w, ok := m[host]
		if !ok {
			return false
		}
		if kind == "consistenthash" && weighted {
			return w > 0
		}
		return true
	}
	anyEligible := func(m map[string]int32) bool {
		for h := range m {
			if eligible(m, h) {
				return true
			}
		}
		return false
	}
	return porcupine.Model{
		Init: func() interface{} { return "" },
		Step: func(state, input, output interface{}) (bool, interface{}) {
			in, out := input.(opIn), output.(opOut)
			m := decState(state.(string))
			switch in.kind {
			case "select":
				if out.err {
					return !anyEligible(m), state
				}
				return eligible(m, out.host), state
			case "add":
				if _, ok := m[in.eps[0].Host]; !ok {
					m[in.eps[0].Host] = in.eps[0].Weight
				}
			case "remove":
				delete(m, in.eps[0].Host)
			case "refresh":
				m = map[string]int32{}
				for _, e := range in.eps {
					if _, ok := m[e.Host]; !ok {
						m[e.Host] = e.Weight
					}
				}
			}
			return true, encState(m)
		},
		DescribeOperation: func(input, output interface{}) string {
			in, out := input.(opIn), output.(opOut)
			var hs []string
			for _, e := range in.eps {
				hs = append(hs, fmt.Sprintf("%s(w%d)", e.Host, e.Weight))
			}
			return fmt.Sprintf("%s %v -> %s err=%v", in.kind, hs, out.host, out.err)
		},
	}
}

type C13 struct {
	mu       sync.Mutex
	kind     string
	weighted bool
	ops      []porcupine.Operation
	seq      int64
	panics   []string
	seqFail  []string
	universe []endpoint.Endpoint
	done     bool
}

func (s *C13) Prepare(c *scen.Ctx) {}
func (s *C13) YieldOff() []string {
	return []string{"tars/util/rtimer", "tars/util/rogger", "tars/transport", "tars/util/gpool"}
}
func (s *C13) NoStalls() bool                 { return true }
func (s *C13) Limits() (time.Duration, int) { return time.Minute, 400000 }

func (s *C13) tick() int64 { s.seq++; return s.seq }

// do runs one operation against the selector, recording invoke/return and panics.
func (s *C13) do(c *scen.Ctx, client int, sel selector.Selector, in opIn, m msg) (out opOut) {
	s.mu.Lock()
	call := s.tick()
	s.mu.Unlock()
	crashed := true
	func() {
		defer func() {
			if r := recover(); r != nil {
				s.mu.Lock()
				s.panics = append(s.panics, fmt.Sprintf("%s on %s(weighted=%v): panic: %v", in.kind, s.kind, s.weighted, r))
				s.mu.Unlock()
				return
			}
			crashed = false
		}()
		switch in.kind {
		case "select":
			ep, err := sel.Select(m)
			out = opOut{host: ep.Host, err: err != nil}
		case "add":
			out.err = sel.Add(in.eps[0]) != nil
		case "remove":
			out.err = sel.Remove(in.arg()) != nil
		case "refresh":
			// the caller owns the slice it passes: it recycles the buffer right afterwards
			buf := append(make([]endpoint.Endpoint, 0, len(in.eps)+2), in.eps...)
			sel.Refresh(buf)
			for i := range buf {
				buf[i] = endpoint.Endpoint{Host: "recycled-by-caller", Port: 1, Weight: 1000, WeightType: buf[i].WeightType, Key: "recycled"}
			}
		}
	}()
	s.mu.Lock()
	ret := s.tick()
	if !crashed {
		s.ops = append(s.ops, porcupine.Operation{ClientId: client, Input: in, Call: call, Output: out, Return: ret})
	}
	s.mu.Unlock()
	return out
}

var weights = []int32{1, 3, 10, 100, 1000, 0, -1, -1000, 7, 4}

func (s *C13) Run(c *scen.Ctx) {
	s.kind = strategies[simrt.Draw(len(strategies), "c13.strategy")]
	s.weighted = simrt.Draw(2, "c13.weighted") == 1
	nU := 2 + simrt.Draw(5, "c13.universe")
	wtMode := simrt.Draw(3, "c13.wtmode") // 0 all static, 1 all loop, 2 mixed
	wmode := simrt.Draw(3, "c13.wmode")   // 0 positive only, 1 any, 2 all zero
	for i := 0; i < nU; i++ {
		var w int32
		switch wmode {
		case 0:
			w = weights[simrt.Draw(5, "c13.w")]
		case 1:
			w = weights[simrt.Draw(len(weights), "c13.w")]
			if w <= 0 {
				c.Count("probe.zero_or_negative_weight", 1)
			}
		default:
			w = 0
			c.Count("probe.zero_or_negative_weight", 1)
		}
		wt := int32(1)
		if wtMode == 1 || (wtMode == 2 && simrt.Draw(2, "c13.wt") == 1) {
			wt = 0
		}
		s.universe = append(s.universe, mkEp(i, w, wt))
	}
	if simrt.Draw(4, "c13.collide") == 3 {
		// two hosts that share a point on the Ketama ring (one pair per ~90 000 points in the wild)
		pair := [][2]string{{"10.20.4.85", "10.20.7.30"}, {"10.1.2.90", "10.1.4.55"}, {"10.1.1.139", "10.1.4.120"}}[simrt.Draw(3, "c13.collidepair")]
		for k := 0; k < 2; k++ {
			s.universe[k].Host = pair[k]
			s.universe[k].Key = s.universe[k].String()
		}
		c.Count("probe.hosts_sharing_a_ring_point", 1)
	}
	c.Describe("strategy", s.kind)
	c.Describe("weighted", s.weighted)
	var us []string
	for _, e := range s.universe {
		us = append(us, fmt.Sprintf("%s w=%d type=%d", e.Host, e.Weight, e.WeightType))
	}
	c.Describe("universe", us)
	sel := newSelector(s.kind, s.weighted)
	// initial refresh with a drawn subset
	pick := func() []endpoint.Endpoint {
		var l []endpoint.Endpoint
		for _, e := range s.universe {
			if simrt.Draw(3, "c13.in") != 0 {
				l = append(l, e)
			}
		}
		return l
	}
	s.do(c, 0, sel, opIn{kind: "refresh", eps: pick()}, msg{})
	// concurrent phase
	nSel := 1 + simrt.Draw(3, "c13.selectors")
	nUpd := 1 + simrt.Draw(2, "c13.updaters")
	var wg sync.WaitGroup
	for i := 0; i < nSel; i++ {
		i := i
		n := 2 + simrt.Draw(8, "c13.nsel")
		wg.Add(1)
		simrt.GoNamed(fmt.Sprintf("selector%d", i), func() {
			defer wg.Done()
			for k := 0; k < n; k++ {
				s.do(c, 1+i, sel, opIn{kind: "select"}, msg{code: uint32(simrt.Draw(1<<30, "c13.code")) * 4, h: true})
			}
		})
	}
	for i := 0; i < nUpd; i++ {
		i := i
		n := 1 + simrt.Draw(6, "c13.nupd")
		wg.Add(1)
		simrt.GoNamed(fmt.Sprintf("updater%d", i), func() {
			defer wg.Done()
			for k := 0; k < n; k++ {
				switch simrt.Draw(4, "c13.upd") {
				case 0:
					s.do(c, 10+i, sel, opIn{kind: "refresh", eps: pick()}, msg{})
				case 1, 2:
					in := opIn{kind: "remove", eps: []endpoint.Endpoint{s.universe[simrt.Draw(nU, "c13.which")]}}
					if simrt.Draw(3, "c13.newer") == 2 {
						// endpoints are identified by host: the registry may have changed the rest of the
						// descriptor since the endpoint was added
						v := in.eps[0]
						switch k := simrt.Draw(3, "c13.newerwhat"); {
						case k == 0:
							v.Port, v.Timeout = v.Port+1, v.Timeout+500
						case k == 1:
							v.Qos, v.SetId, v.Grid = 3, "a.b.c", 2
						default:
							v.Weight += 50
						}
						v.Key = v.String()
						in.variant = &v
						c.Count("probe.remove_with_newer_descriptor", 1)
					}
					s.do(c, 10+i, sel, in, msg{})
				default:
					s.do(c, 10+i, sel, opIn{kind: "add", eps: []endpoint.Endpoint{s.universe[simrt.Draw(nU, "c13.which")]}}, msg{})
				}
			}
		})
	}
	wg.Wait()
	simrt.Sleep(0)
	// sequential phase: rotation and weight proportion on a fresh, unchanged set
	if len(s.panics) == 0 {
		s.sequential(c)
	}
	s.mu.Lock()
	s.done = true
	s.mu.Unlock()
}

// sequential checks round-robin rotation (identified by host) on an unchanged set.
func (s *C13) sequential(c *scen.Ctx) {
	defer func() {
		if r := recover(); r != nil {
			s.panics = append(s.panics, fmt.Sprintf("sequential phase on roundrobin(weighted=%v): panic: %v", s.weighted, r))
		}
	}()
	var set []endpoint.Endpoint
	for _, e := range s.universe {
		if simrt.Draw(4, "c13.seqin") != 0 {
			set = append(set, e)
		}
	}
	if len(set) == 0 {
		set = s.universe[:1]
	}
	rr := roundrobin.New(s.weighted)
	switch simrt.Draw(3, "c13.seqhist") { // reach the set through different histories
	case 0:
		buf := append([]endpoint.Endpoint(nil), set...)
		rr.Refresh(buf)
		for i := range buf {
			buf[i] = endpoint.Endpoint{Host: "recycled-by-caller", Weight: 1000, WeightType: buf[i].WeightType}
		}
	case 1:
		for _, e := range set {
			rr.Add(e)
		}
	default:
		rr.Refresh(s.universe)
		for _, e := range s.universe {
			in := false
			for _, x := range set {
				in = in || x.Host == e.Host
			}
			if !in {
				rr.Remove(e)
			}
		}
	}
	if simrt.Draw(3, "c13.cursor") == 2 {
		// a long-lived selector: 2^32 selections later the rotation is still a rotation
		rr.VerifSetCursor(1<<32 - uint64(1+simrt.Draw(30, "c13.cursoroff")))
		c.Count("probe.cursor_near_2^32", 1)
	}
	// an update the selector rejects (adding a host that is a member already, removing one that is
	// not) leaves the set unchanged: the rotation goes on as if nothing had been asked
	rejected := func() {
		var out []endpoint.Endpoint
		for _, e := range s.universe {
			in := false
			for _, x := range set {
				in = in || x.Host == e.Host
			}
			if !in {
				out = append(out, e)
			}
		}
		if len(out) > 0 && simrt.Draw(2, "c13.rejectedkind") == 1 {
			if rr.Remove(out[simrt.Draw(len(out), "c13.rejectedwhich")]) == nil {
				s.seqFail = append(s.seqFail, "Remove of an endpoint that is no member returned no error")
			}
		} else if rr.Add(set[simrt.Draw(len(set), "c13.rejectedwhich")]) == nil {
			s.seqFail = append(s.seqFail, "Add of a host that is a member already returned no error")
		}
		c.Count("probe.rejected_update_inside_a_rotation_window", 1)
	}
	rejectAt := func(window int) int {
		if simrt.Draw(3, "c13.rejected") == 2 {
			return simrt.Draw(window, "c13.rejectedat")
		}
		return -1
	}
	allStatic, allPos := true, true
	var wmax, wmin int32 = -1 << 31, 1<<31 - 1
	for _, e := range set {
		if e.WeightType != 1 {
			allStatic = false
		}
		if e.Weight <= 0 {
			allPos = false
		}
		if e.Weight > wmax {
			wmax = e.Weight
		}
		if e.Weight < wmin {
			wmin = e.Weight
		}
	}
	n := len(set)
	if s.weighted && allStatic {
		if !allPos {
			return // the proportion rule is stated for positive weights only
		}
		c.Count("probe.weighted_cycle_checked", 1)
		R := int(wmax / wmin)
		if R < 10 {
			R = 10
		}
		if R > 100 {
			R = 100
		}
		want := map[string]int{}
		L := 0
		for _, e := range set {
			k := int(e.Weight) * R / int(wmax)
			if k < 1 {
				k = 1
			}
			want[e.Host] = k
			L += k
		}
		off := simrt.Draw(L, "c13.offset")
		for i := 0; i < off; i++ {
			rr.Select(msg{})
		}
		got := map[string]int{}
		ra := rejectAt(L)
		for i := 0; i < L; i++ {
			if i == ra {
				rejected()
			}
			ep, err := rr.Select(msg{})
			if err != nil {
				s.seqFail = append(s.seqFail, fmt.Sprintf("weighted round-robin over %d endpoints returned an error: %v", n, err))
				return
			}
			got[ep.Host]++
		}
		for h, k := range want {
			if got[h] != k {
				s.seqFail = append(s.seqFail, fmt.Sprintf("weighted cycle of length %d: endpoint %s was selected %d times, expected max(1, floor(W*R/Wmax)) = %d (weights %v, R=%d)", L, h, got[h], k, weightsOf(set), R))
				return
			}
		}
		return
	}
	c.Count("probe.rotation_checked", 1)
	off := simrt.Draw(2*n+1, "c13.offset")
	for i := 0; i < off; i++ {
		rr.Select(msg{})
	}
	for round := 0; round < 2; round++ {
		seen := map[string]int{}
		ra := rejectAt(n)
		for i := 0; i < n; i++ {
			if i == ra {
				rejected()
			}
			ep, err := rr.Select(msg{})
			if err != nil {
				s.seqFail = append(s.seqFail, fmt.Sprintf("round-robin over %d endpoints returned an error: %v", n, err))
				return
			}
			seen[ep.Host]++
		}
		for _, e := range set {
			if seen[e.Host] != 1 {
				s.seqFail = append(s.seqFail, fmt.Sprintf("%d consecutive selections over an unchanged %d-endpoint set hit %s %d times (all: %v)", n, n, e.Host, seen[e.Host], seen))
				return
			}
		}
	}
}

func weightsOf(set []endpoint.Endpoint) []int32 {
	var w []int32
	for _, e := range set {
		w = append(w, e.Weight)
	}
	return w
}

func (s *C13) Check(c *scen.Ctx, res *simrt.Result) {
	s.mu.Lock()
	defer s.mu.Unlock()
	for _, p := range s.panics {
		key := s.kind
		if strings.Contains(p, "divide by zero") {
			key += "/divide-by-zero"
		} else if strings.Contains(p, "out of range") {
			key += "/out-of-range"
		}
		if strings.HasPrefix(p, "sequential") {
			key = "roundrobin" + key[len(s.kind):]
		}
		c.Fail("C13", "crash", key, "%s; universe: %v", p, describe(s.universe))
	}
	for _, f := range s.seqFail {
		c.Fail("C13", "rotation", "roundrobin", "%s", f)
	}
	if !s.done {
		if res.Status != "ok" && len(s.panics) == 0 {
			c.Fail("C13", "stuck", s.kind, "selector operations did not finish (run status %s)", res.Status)
		}
		return
	}
	if len(s.panics) > 0 {
		return // the history after a crash is not judged
	}
	if len(s.ops) > 80 {
		s.ops = s.ops[:80]
	}
	if ok := porcupine.CheckOperations(memberModel(s.kind, s.weighted), s.ops); !ok {
		var hs []string
		for _, o := range s.ops {
			hs = append(hs, fmt.Sprintf("[%d,%d] c%d %s", o.Call, o.Return, o.ClientId, memberModel(s.kind, s.weighted).DescribeOperation(o.Input, o.Output)))
		}
		c.Fail("C13", "not-linearizable", s.kind, "%s(weighted=%v): the history is not linearizable against 'Select returns a member of the current set, or an error only if no endpoint is eligible': %s", s.kind, s.weighted, strings.Join(hs, " | "))
	}
	c.Count("probe.history_ops", len(s.ops))
}

func describe(u []endpoint.Endpoint) []string {
	var us []string
	for _, e := range u {
		us = append(us, fmt.Sprintf("%s w=%d type=%d", e.Host, e.Weight, e.WeightType))
	}
	return us
}
