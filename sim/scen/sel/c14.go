package sel

import (
	"crypto/md5"
	"fmt"
	"sort"
	"sync"
	"time"

	"github.com/TarsCloud/TarsGo/tars/selector"
	"github.com/TarsCloud/TarsGo/tars/selector/consistenthash"
	"github.com/TarsCloud/TarsGo/tars/selector/modhash"
	"github.com/TarsCloud/TarsGo/tars/util/endpoint"

	"verifsim/scen"
	"verifsim/simrt"
)

func init() { scen.Register("c14", func() scen.Scenario { return &C14{} }) }

// refRing is an independent construction of the Ketama ring from the documented
// rule: for round i in [0, rounds) take md5(host_i); each 4-byte group, read
// little-endian, is one point; rounds = 100/4 without weights, max(1, w/4) for a
// positive static weight w, none for w <= 0.
type refRing struct {
	points []uint32
	owner  map[uint32]string
	claim  map[uint32][]string // every host that puts a point at this position
	shared []uint32            // positions claimed by more than one host
}

func buildRing(set []endpoint.Endpoint, weighted bool) *refRing {
	r := &refRing{owner: map[uint32]string{}, claim: map[uint32][]string{}}
	for _, e := range set {
		rounds := 25
		if weighted {
			if e.Weight <= 0 {
				continue
			}
			rounds = int(e.Weight) / 4
			if rounds == 0 {
				rounds = 1
			}
		}
		for i := 0; i < rounds; i++ {
			d := md5.Sum([]byte(fmt.Sprintf("%s_%d", e.Host, i)))
			for k := 0; k < 4; k++ {
				p := uint32(d[4*k]) | uint32(d[4*k+1])<<8 | uint32(d[4*k+2])<<16 | uint32(d[4*k+3])<<24
				if _, dup := r.owner[p]; !dup {
					r.points = append(r.points, p)
				} else if r.owner[p] != e.Host {
					r.shared = append(r.shared, p)
				}
				r.owner[p] = e.Host
				r.claim[p] = append(r.claim[p], e.Host)
			}
		}
	}
	sort.Slice(r.points, func(i, j int) bool { return r.points[i] < r.points[j] })
	return r
}

func (r *refRing) lookup(code uint32) (string, bool) {
	if len(r.points) == 0 {
		return "", false
	}
	i := sort.Search(len(r.points), func(i int) bool { return r.points[i] >= code })
	if i == len(r.points) {
		i = 0
	}
	return r.owner[r.points[i]], true
}

// claimed reports whether host puts a point at the position that serves code. Which of several
// hosts sharing a position owns it is the implementation's choice; it only has to be the same
// choice whatever the history (checked by comparing the two instances).
func (r *refRing) claimed(code uint32, host string) bool {
	if len(r.points) == 0 {
		return false
	}
	i := sort.Search(len(r.points), func(i int) bool { return r.points[i] >= code })
	if i == len(r.points) {
		i = 0
	}
	for _, h := range r.claim[r.points[i]] {
		if h == host {
			return true
		}
	}
	return false
}

type C14 struct {
	mu    sync.Mutex
	fails []string
	kinds []string
	panic string
}

func (s *C14) Prepare(c *scen.Ctx) {}
func (s *C14) YieldOff() []string {
	return []string{"tars/util/rtimer", "tars/util/rogger", "tars/transport", "tars/util/gpool"}
}
func (s *C14) NoStalls() bool                 { return true }
func (s *C14) Limits() (time.Duration, int) { return time.Minute, 3000000 }

func (s *C14) fail(kind, f string, a ...interface{}) {
	s.mu.Lock()
	if len(s.fails) < 5 {
		s.fails = append(s.fails, fmt.Sprintf(f, a...))
		s.kinds = append(s.kinds, kind)
	}
	s.mu.Unlock()
}

type hist struct {
	sel selector.Selector
	set map[string]endpoint.Endpoint // model of the member set (by host)
	ord []string                     // installed order (mod-hash)
}

func (h *hist) apply(op string, eps []endpoint.Endpoint) {
	switch op {
	case "refresh":
		h.sel.Refresh(eps)
		h.set, h.ord = map[string]endpoint.Endpoint{}, nil
		for _, e := range eps {
			if _, ok := h.set[e.Host]; !ok {
				h.set[e.Host] = e
				h.ord = append(h.ord, e.Host)
			}
		}
	case "add":
		h.sel.Add(eps[0])
		if _, ok := h.set[eps[0].Host]; !ok {
			h.set[eps[0].Host] = eps[0]
			h.ord = append(h.ord, eps[0].Host)
		}
	case "remove":
		h.sel.Remove(eps[0])
		if _, ok := h.set[eps[0].Host]; ok {
			delete(h.set, eps[0].Host)
			for i, x := range h.ord {
				if x == eps[0].Host {
					h.ord = append(h.ord[:i:i], h.ord[i+1:]...)
					break
				}
			}
		}
	}
}

func (h *hist) members() []endpoint.Endpoint {
	var l []endpoint.Endpoint
	for _, x := range h.ord {
		l = append(l, h.set[x])
	}
	return l
}

func (s *C14) Run(c *scen.Ctx) {
	defer func() {
		if r := recover(); r != nil {
			s.mu.Lock()
			s.panic = fmt.Sprint(r)
			s.mu.Unlock()
		}
	}()
	kind := []string{"consistenthash", "modhash"}[simrt.Draw(2, "c14.kind")]
	weighted := simrt.Draw(3, "c14.weighted") == 2
	nU := 2 + simrt.Draw(5, "c14.universe")
	var universe []endpoint.Endpoint
	for i := 0; i < nU; i++ {
		w := []int32{100, 4, 8, 40, 1, 3, 10}[simrt.Draw(7, "c14.w")]
		universe = append(universe, mkEp(i, w, 1))
	}
	if kind == "consistenthash" && simrt.Draw(4, "c14.collide") == 3 {
		// two hosts whose Ketama points coincide at one ring position
		pair := [][2]string{{"10.20.4.85", "10.20.7.30"}, {"10.1.2.90", "10.1.4.55"}, {"10.1.1.139", "10.1.4.120"}}[simrt.Draw(3, "c14.collidepair")]
		for k := 0; k < 2; k++ {
			universe[k].Host, universe[k].Weight = pair[k], 100
			universe[k].Key = universe[k].String()
		}
		c.Count("probe.hosts_sharing_a_ring_point", 1)
	}
	c.Describe("strategy", kind)
	c.Describe("weighted", weighted)
	c.Describe("universe", describe(universe))
	mk := func() *hist {
		var sel selector.Selector
		if kind == "modhash" {
			sel = modhash.New(weighted)
		} else {
			sel = consistenthash.New(weighted, consistenthash.KetamaHash)
		}
		return &hist{sel: sel, set: map[string]endpoint.Endpoint{}}
	}
	a, b := mk(), mk()
	// history of a: random add/remove/refresh events
	nev := 1 + simrt.Draw(25, "c14.events")
	for i := 0; i < nev; i++ {
		switch simrt.Draw(5, "c14.op") {
		case 0:
			var l []endpoint.Endpoint
			// a refresh installs the descriptors it is given: the registry may list the same hosts
			// with other weights or ports than before
			newer := simrt.Draw(3, "c14.refreshnewer") == 2
			for _, e := range universe {
				if simrt.Draw(3, "c14.in") != 0 {
					if newer && simrt.Draw(2, "c14.newerwhich") == 1 {
						if weighted {
							e.Weight = []int32{4, 8, 40, 100, 12}[simrt.Draw(5, "c14.newerw")]
						} else {
							e.Port += 11
						}
						e.Key = e.String()
						c.Count("probe.refresh_with_newer_descriptor", 1)
					}
					l = append(l, e)
				}
			}
			a.apply("refresh", l)
		case 1, 2:
			a.apply("add", []endpoint.Endpoint{universe[simrt.Draw(nU, "c14.which")]})
		default:
			// endpoints are identified by host: the descriptor handed to Remove may be a newer
			// one of the same host (other port, time-out, qos, set; other weight when weights are not in use)
			e := universe[simrt.Draw(nU, "c14.which")]
			switch simrt.Draw(4, "c14.descr") {
			case 1:
				e.Port += 7
				e.Timeout = 1234
				c.Count("probe.remove_with_newer_descriptor", 1)
			case 2:
				e.Qos, e.SetId, e.Grid = 3, "a.b.c", 2
				c.Count("probe.remove_with_newer_descriptor", 1)
			case 3:
				e.Weight += 13
				c.Count("probe.remove_with_newer_descriptor", 1)
			}
			e.Key = e.String()
			a.apply("remove", []endpoint.Endpoint{e})
		}
	}
	if len(a.set) == 0 {
		a.apply("add", []endpoint.Endpoint{universe[0]})
	}
	final := a.members()
	defer s.concurrentPhase(c, a, universe)
	// b reaches the same set by another route
	switch simrt.Draw(3, "c14.route") {
	case 0:
		b.apply("refresh", final)
	case 1:
		for i := len(final) - 1; i >= 0; i-- { // reverse insertion order
			b.apply("add", []endpoint.Endpoint{final[i]})
		}
	default:
		// everything first (members with the descriptors they have in the final set), then the non-members are removed
		var all []endpoint.Endpoint
		for _, e := range universe {
			if m, ok := a.set[e.Host]; ok {
				e = m
			}
			all = append(all, e)
		}
		b.apply("refresh", all)
		for _, e := range universe {
			if _, ok := a.set[e.Host]; !ok {
				b.apply("remove", []endpoint.Endpoint{e})
			}
		}
		c.Count("probe.route_refresh_all_then_remove", 1)
	}
	ring := buildRing(final, weighted)
	codes := s.codes(ring)
	c.Describe("final_set", describe(final))
	c.Describe("lookups", len(codes))
	lookup := func(h *hist, code uint32) (string, bool) {
		ep, err := h.sel.Select(msg{code: code, h: true})
		return ep.Host, err == nil
	}
	if kind == "consistenthash" {
		for _, code := range codes {
			ha, oka := lookup(a, code)
			hb, okb := lookup(b, code)
			hr, okr := ring.lookup(code)
			if ha != hb || oka != okb {
				s.fail("history-dependence", "consistent hash: code %d goes to %q (ok=%v) on the instance built by the drawn history and to %q (ok=%v) on the instance that reached the same set %v by another route", code, ha, oka, hb, okb, describe(final))
				return
			}
			if (ha != hr && !ring.claimed(code, ha)) || oka != okr {
				s.fail("ring-mismatch", "consistent hash (weighted=%v): code %d goes to %q (ok=%v); the independently built Ketama ring over %v gives %q (ok=%v)", weighted, code, ha, oka, describe(final), hr, okr)
				return
			}
			if h2, _ := lookup(a, code); h2 != ha {
				s.fail("unstable", "consistent hash: code %d went to %q and then to %q while the set was unchanged", code, ha, h2)
				return
			}
		}
		// minimal disruption: remove one member, then add one non-member
		if len(final) > 1 {
			victim := final[simrt.Draw(len(final), "c14.victim")]
			before := map[uint32]string{}
			for _, code := range codes {
				before[code], _ = lookup(a, code)
			}
			a.apply("remove", []endpoint.Endpoint{victim})
			for _, code := range codes {
				h, ok := lookup(a, code)
				if before[code] != victim.Host && ok && h != before[code] {
					s.fail("removal-disruption", "after removing %s, code %d moved from %q to %q although it was not mapped to the removed endpoint", victim.Host, code, before[code], h)
					return
				}
				if h == victim.Host {
					s.fail("removed-still-routed", "after removing %s, code %d is still routed to it", victim.Host, code)
					return
				}
			}
			c.Count("probe.removal_checked", 1)
			a.apply("add", []endpoint.Endpoint{victim})
			for _, code := range codes {
				h, _ := lookup(a, code)
				if h != before[code] {
					s.fail("re-add-differs", "after removing and re-adding %s, code %d goes to %q instead of %q", victim.Host, code, h, before[code])
					return
				}
			}
		}
		for _, e := range universe {
			if _, in := a.set[e.Host]; in {
				continue
			}
			before := map[uint32]string{}
			for _, code := range codes {
				before[code], _ = lookup(a, code)
			}
			a.apply("add", []endpoint.Endpoint{e})
			for _, code := range codes {
				h, _ := lookup(a, code)
				if h != before[code] && h != e.Host {
					s.fail("addition-disruption", "after adding %s, code %d moved from %q to %q (not the new endpoint)", e.Host, code, before[code], h)
					return
				}
			}
			c.Count("probe.addition_checked", 1)
			break
		}
		return
	}
	// mod-hash
	allStatic := true
	for _, e := range final {
		if e.WeightType != 1 {
			allStatic = false
		}
	}
	useCycle := weighted && allStatic
	for _, code := range codes {
		ha, oka := lookup(a, code)
		if !oka {
			s.fail("modhash-error", "mod-hash returned an error for code %d on the non-empty set %v", code, describe(final))
			return
		}
		if h2, _ := lookup(a, code); h2 != ha {
			s.fail("unstable", "mod-hash: code %d went to %q and then to %q while the set was unchanged", code, ha, h2)
			return
		}
		if !useCycle {
			want := a.ord[int(code%uint32(len(a.ord)))]
			if ha != want {
				s.fail("modhash-slot", "mod-hash: code %d went to %q; slot %d mod %d of the installed list %v is %q", code, ha, code, len(a.ord), a.ord, want)
				return
			}
		}
	}
	if useCycle {
		// composition of one weighted cycle: codes 0..L-1 hit endpoint i exactly k_i times
		var wmax, wmin int32 = -1 << 31, 1<<31 - 1
		for _, e := range final {
			if e.Weight > wmax {
				wmax = e.Weight
			}
			if e.Weight < wmin {
				wmin = e.Weight
			}
		}
		R := int(wmax / wmin)
		if R < 10 {
			R = 10
		}
		if R > 100 {
			R = 100
		}
		want, L := map[string]int{}, 0
		for _, e := range final {
			k := int(e.Weight) * R / int(wmax)
			if k < 1 {
				k = 1
			}
			want[e.Host] = k
			L += k
		}
		base := uint32(simrt.Draw(1000, "c14.base")) * uint32(L)
		got := map[string]int{}
		for i := 0; i < L; i++ {
			h, _ := lookup(a, base+uint32(i))
			got[h]++
		}
		for h, k := range want {
			if got[h] != k {
				s.fail("modhash-cycle", "weighted mod-hash: over one cycle of %d codes endpoint %s is hit %d times, expected %d (weights %v)", L, h, got[h], k, weightsOf(final))
				return
			}
		}
		c.Count("probe.weighted_cycle_checked", 1)
	}
}

// codes: ring points, their neighbours, the extremes and random codes.
func (s *C14) codes(r *refRing) []uint32 {
	cs := []uint32{0, 1, 0xFFFFFFFF, 0xFFFFFFFE, 0x7FFFFFFF, 0x80000000}
	n := len(r.points)
	for i := 0; i < 40 && n > 0; i++ {
		p := r.points[simrt.Draw(n, "c14.point")]
		cs = append(cs, p, p-1, p+1)
	}
	if n > 0 {
		cs = append(cs, r.points[0], r.points[0]-1, r.points[n-1], r.points[n-1]+1)
	}
	for _, p := range r.shared {
		cs = append(cs, p, p-1, p+1)
	}
	for i := 0; i < 60; i++ {
		cs = append(cs, uint32(simrt.Draw(1<<30, "c14.code"))<<2|uint32(simrt.Draw(4, "c14.low")))
	}
	return cs
}

func (s *C14) Check(c *scen.Ctx, res *simrt.Result) {
	s.mu.Lock()
	defer s.mu.Unlock()
	if s.panic != "" {
		c.Fail("C14", "crash", "selector", "hash selector panicked: %s", s.panic)
	}
	for i, f := range s.fails {
		c.Fail("C14", s.kinds[i], "selector", "%s", f)
	}
}

// concurrentPhase: lookups while one endpoint is being removed and added again. A lookup that
// overlaps an update goes to an endpoint that is legal before or after that update: a member of
// the set, with or without the flapping endpoint - never to nobody with a nil error.
func (s *C14) concurrentPhase(c *scen.Ctx, a *hist, universe []endpoint.Endpoint) {
	s.mu.Lock()
	failed := len(s.fails) > 0 || s.panic != ""
	s.mu.Unlock()
	if failed || len(a.set) < 2 || simrt.Draw(2, "c14.concurrent") == 0 {
		return
	}
	members := a.members()
	flap := members[simrt.Draw(len(members), "c14.flap")]
	legal := map[string]bool{}
	for _, e := range members {
		legal[e.Host] = true
	}
	c.Count("probe.lookups_during_updates", 1)
	var wg sync.WaitGroup
	stop := false
	for g := 0; g < 2; g++ {
		g := g
		wg.Add(1)
		simrt.GoNamed(fmt.Sprintf("lookup%d", g), func() {
			defer wg.Done()
			defer func() {
				if r := recover(); r != nil {
					s.mu.Lock()
					s.panic = fmt.Sprintf("lookup during update: panic: %v", r)
					s.mu.Unlock()
				}
			}()
			for i := 0; i < 40; i++ {
				s.mu.Lock()
				st := stop
				s.mu.Unlock()
				if st {
					return
				}
				code := uint32(simrt.Draw(1<<30, "c14.ccode")) * 4
				ep, err := a.sel.Select(msg{code: code, h: true})
				if err == nil && !legal[ep.Host] {
					s.fail("lookup-during-update", "while %s was being removed and added again, a lookup of code %d returned endpoint %q (port %d) without an error: not a member of %v", flap.Host, code, ep.Host, ep.Port, describe(members))
					return
				}
			}
		})
	}
	for i := 0; i < 3; i++ {
		a.sel.Remove(flap)
		a.sel.Add(flap)
	}
	s.mu.Lock()
	stop = true
	s.mu.Unlock()
	wg.Wait()
}
