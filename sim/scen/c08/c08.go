// Package c08: responses are delivered to the caller of the matching request id.
package c08

import (
	"bytes"
	"context"
	"fmt"
	"math"
	"strings"
	"sync"
	"time"

	"github.com/TarsCloud/TarsGo/tars"
	"github.com/TarsCloud/TarsGo/tars/protocol/res/endpointf"
	"github.com/TarsCloud/TarsGo/tars/protocol/res/requestf"
	"github.com/TarsCloud/TarsGo/tars/registry"
	"github.com/TarsCloud/TarsGo/tars/util/tools"

	"verifsim/refcodec"
	"verifsim/scen"
	"verifsim/scen/world"
	"verifsim/simnet"
	"verifsim/simrt"
)

func init() { scen.Register("c08", func() scen.Scenario { return &S{} }) }

type call struct {
	caller, k  int
	payload    []byte
	oneway     bool
	t0, t1     time.Duration
	s0, s1     int
	done       bool
	err        error
	rspID      int32
	rspBuf     []byte
	wireID     int32
	seenOnWire bool
}

type S struct {
	mu        sync.Mutex
	calls     []*call
	srv       *world.Server
	timeoutMs int
	prxs      []*tars.ServantProxy
	srvs      []*world.Server
	final     []tars.VerifProxyState
	registry  bool
	dropAt    time.Duration // when the registry stopped listing dropped (registry mode)
	dropped   string
	refreshMs int
	pushCB    bool
	keepAlive bool
	pushed    []string
	pushSent  int
	drop      func(host string)
	finished  bool
	plans     map[int32]string
	replyAt   map[int32]time.Duration // when the peer wrote (or will write) the first real response of a request
}

// registrar is the registry of the registry mode.
type registrar struct {
	mu     sync.Mutex
	active []endpointf.EndpointF
}

func (r *registrar) Registry(ctx context.Context, s *registry.ServantInstance) error   { return nil }
func (r *registrar) Deregister(ctx context.Context, s *registry.ServantInstance) error { return nil }
func (r *registrar) QueryServant(ctx context.Context, id string) ([]registry.Endpoint, []registry.Endpoint, error) {
	r.mu.Lock()
	defer r.mu.Unlock()
	return append([]endpointf.EndpointF(nil), r.active...), nil, nil
}
func (r *registrar) QueryServantBySet(ctx context.Context, id, set string) ([]registry.Endpoint, []registry.Endpoint, error) {
	return r.QueryServant(ctx, id)
}

func (s *S) Prepare(c *scen.Ctx) { world.PrepareProcess() }
func (s *S) YieldOff() []string {
	return []string{"tars/util/rtimer", "tars/util/rogger", "tars/util/gpool", "tars/selector"}
}
func (s *S) Limits() (time.Duration, int) { return 3 * time.Minute, 3000000 }

const addr = "10.0.0.9:1000"

var siteCaller = simrt.Site("c08.caller")

func (s *S) Run(c *scen.Ctx) {
	simnet.Cfg.Fragment = simrt.Draw(2, "c08.frag") == 1
	simnet.Cfg.Delay = simrt.Draw(2, "c08.delay") == 1
	s.timeoutMs = []int{3000, 300, 1000}[simrt.Draw(3, "c08.timeout")]
	s.plans = map[int32]string{}
	s.replyAt = map[int32]time.Duration{}
	// a push client: the framework keeps such connections alive with one-way tars_ping requests
	// every half client idle time-out; those requests are requests like any other (ids!)
	s.pushCB = simrt.Draw(2, "c08.pushcb") == 1
	var idle time.Duration
	if s.pushCB && simrt.Draw(2, "c08.keepalive") == 1 {
		idle = []time.Duration{60, 140, 600, 1000}[simrt.Draw(4, "c08.idle")] * time.Millisecond
		s.keepAlive = true
	}
	s.registry = simrt.Draw(4, "c08.registry") == 3
	var comm *tars.Communicator
	obj := "App.Srv.Obj@tcp -h 10.0.0.9 -p 1000 -t 3000"
	handler := func(sc *world.SrvConn, req *refcodec.Request, raw []byte) { s.onRequest(c, sc, req) }
	addrs := []string{addr}
	if s.registry {
		// endpoints come from a registry that stops listing one of them while calls are in flight:
		// the refresh closes that endpoint's adapter under the callers waiting on it
		s.refreshMs = []int{200, 1000}[simrt.Draw(2, "c08.refresh")]
		nn := 2 + simrt.Draw(2, "c08.nodes")
		reg := &registrar{}
		addrs = nil
		for i := 0; i < nn; i++ {
			reg.active = append(reg.active, endpointf.EndpointF{Host: fmt.Sprintf("10.0.1.%d", i+1), Port: 1000, Timeout: 3000, Istcp: 1, Weight: 100})
			addrs = append(addrs, fmt.Sprintf("10.0.1.%d:1000", i+1))
		}
		comm = world.NewClient(world.ClientOpts{InvokeTimeoutMs: s.timeoutMs, RefreshMs: s.refreshMs, IdleTimeout: idle}, tars.Registrar(reg))
		obj = "App.Srv.Obj"
		// the drop is placed where it creates in-flight state: right after a request whose
		// reply the server holds back has arrived on the endpoint to be dropped (see onRequest)
		s.drop = func(host string) {
			reg.mu.Lock()
			defer reg.mu.Unlock()
			if len(reg.active) < 2 {
				return
			}
			for k, e := range reg.active {
				if e.Host == host {
					reg.active = append(reg.active[:k:k], reg.active[k+1:]...)
					s.dropped, s.dropAt = host, simrt.Elapsed()
					c.Count("fault.registry_drops_endpoint_with_calls_in_flight", 1)
					simrt.Event("registry stops listing %s", host)
					return
				}
			}
		}
	} else {
		comm = world.NewClient(world.ClientOpts{InvokeTimeoutMs: s.timeoutMs, IdleTimeout: idle})
	}
	for _, a := range addrs {
		srv, err := world.StartServer(a, handler)
		if err != nil {
			c.Inconclusive("listen: %v", err)
			return
		}
		s.srvs = append(s.srvs, srv)
	}
	// several proxy objects for the same servant share the endpoint manager, its adapters and
	// their pending-reply tables: ids must be unique across all of them
	nprx := []int{1, 1, 2, 3}[simrt.Draw(4, "c08.proxies")]
	for i := 0; i < nprx; i++ {
		s.prxs = append(s.prxs, world.Proxy(comm, obj))
	}
	// a push callback that takes its time: push frames (id 0) are delivered to it, the calls
	// pending on the connection meanwhile are not disturbed
	if s.pushCB {
		slow := time.Duration(simrt.Draw(4, "c08.pushslow")) * 60 * time.Millisecond
		for _, p := range s.prxs {
			p.SetPushCallback(func(b []byte) {
				s.mu.Lock()
				s.pushed = append(s.pushed, string(b))
				s.mu.Unlock()
				simrt.Sleep(slow)
			})
		}
		c.Describe("push_callback_ms", int(slow/time.Millisecond))
		c.Describe("keep_alive_every", (idle / 2).String())
	}
	c.Describe("proxy_objects", nprx)
	c.Describe("registry", s.registry)
	switch simrt.Draw(5, "c08.msgid") {
	case 1:
		if tars.VerifSetMsgID(math.MaxInt32-int32(simrt.Draw(6, "c08.msgid.off")), s.prxs...) {
			c.Count("probe.msgid_near_maxint32", 1)
		}
	case 2:
		if tars.VerifSetMsgID(-1-int32(simrt.Draw(4, "c08.msgid.off")), s.prxs...) {
			c.Count("probe.msgid_near_zero", 1)
		}
	}
	ncallers := 1 + simrt.Draw(8, "c08.callers")
	per := 1 + simrt.Draw(5, "c08.per")
	c.Describe("callers", ncallers)
	c.Describe("calls_per_caller", per)
	c.Describe("timeout_ms", s.timeoutMs)
	c.Describe("fragmented_reads", simnet.Cfg.Fragment)
	c.Describe("delivery_delays", simnet.Cfg.Delay)
	// other traffic of the same process: while the calls below are outstanding, a burst of further
	// requests (notifications, calls through other proxies) draws request ids from the same generator
	burnN := 0
	if simrt.Draw(12, "c08.othertraffic") == 11 {
		burnN = []int{1000, 1<<15 - 2, 1<<16 - 2}[simrt.Draw(3, "c08.burn")] - simrt.Draw(12, "c08.burnoff")
	}
	burnAfter := time.Duration(simrt.Draw(60, "c08.burnafter")) * time.Millisecond
	var wg sync.WaitGroup
	if burnN > 0 {
		wg.Add(1)
		simrt.GoNamed("othertraffic", func() {
			defer wg.Done()
			simrt.Sleep(burnAfter)
			if tars.VerifBurnIDs(burnN, s.prxs...) {
				c.Count("probe.ids_drawn_by_other_traffic_while_calls_wait", 1)
			}
		})
	}
	for ci := 0; ci < ncallers; ci++ {
		ci := ci
		wg.Add(1)
		simrt.GoNamed(fmt.Sprintf("caller%d", ci), func() {
			defer wg.Done()
			for k := 0; k < per; k++ {
				cl := &call{caller: ci, k: k, payload: []byte(fmt.Sprintf("call-%d-%d|%s", ci, k, strings.Repeat("x", simrt.Draw(40, "c08.pad"))))}
				cl.oneway = simrt.Draw(10, "c08.oneway") == 9
				s.mu.Lock()
				s.calls = append(s.calls, cl)
				s.mu.Unlock()
				var rsp requestf.ResponsePacket
				ct := byte(0)
				if cl.oneway {
					ct = 1
				}
				cl.t0, cl.s0 = simrt.Elapsed(), simrt.Step()
				err := s.prxs[ci%len(s.prxs)].TarsInvoke(context.Background(), ct, "echo", cl.payload, nil, nil, &rsp)
				s.mu.Lock()
				cl.t1, cl.s1 = simrt.Elapsed(), simrt.Step()
				cl.done = true
				cl.err = err
				if err == nil && !cl.oneway {
					cl.rspID = rsp.IRequestId
					cl.rspBuf = tools.Int8ToByte(rsp.SBuffer)
				}
				s.mu.Unlock()
				simrt.Yield(siteCaller)
				if g := simrt.Draw(4, "c08.gap"); g > 0 {
					simrt.Sleep(time.Duration(g) * 3 * time.Millisecond)
				}
			}
		})
	}
	wg.Wait()
	simrt.Sleep(time.Duration(s.timeoutMs)*time.Millisecond + 500*time.Millisecond)
	if idle > 0 {
		simrt.Sleep(idle) // at least one more keep-alive round on a quiet connection
	}
	s.mu.Lock()
	for try := 0; ; try++ {
		var final []tars.VerifProxyState
		busy := false
		for _, p := range s.prxs {
			st := tars.VerifState(p)
			final = append(final, st)
			busy = busy || st.QueueLen != 0
		}
		s.final = final
		// a keep-alive ping may be on its way at this very instant: look again a little later
		if !busy || idle == 0 || try == 3 {
			break
		}
		s.mu.Unlock()
		simrt.Sleep(13 * time.Millisecond)
		s.mu.Lock()
	}
	s.finished = true
	s.mu.Unlock()
}

// onRequest: the scripted server echoes every request, by a tape-drawn plan.
func (s *S) onRequest(c *scen.Ctx, sc *world.SrvConn, req *refcodec.Request) {
	rsp := world.Echo(req)
	to := time.Duration(s.timeoutMs) * time.Millisecond
	plan := simrt.Draw(12, "c08.plan")
	name := ""
	// wrote: the first real response of this request is on the wire now
	wrote := func(r *refcodec.Response, err error) {
		if err != nil || r.RequestID != req.RequestID {
			return
		}
		s.mu.Lock()
		if _, ok := s.replyAt[req.RequestID]; !ok {
			s.replyAt[req.RequestID] = simrt.Elapsed()
		}
		s.mu.Unlock()
	}
	send := func(r *refcodec.Response, d time.Duration) {
		if d == 0 {
			wrote(r, sc.Reply(r))
			return
		}
		simrt.Go(func() { simrt.Sleep(d); wrote(r, sc.Reply(r)) })
	}
	switch plan {
	case 0, 1, 2:
		name = "immediate"
		send(rsp, 0)
	case 3:
		name = "delayed"
		c.Count("fault.response_delayed", 1)
		send(rsp, time.Duration(1+simrt.Draw(40, "c08.d"))*time.Millisecond)
	case 4:
		name = "duplicated"
		c.Count("fault.response_duplicated", 1)
		send(rsp, 0)
		send(rsp, time.Duration(simrt.Draw(20, "c08.d"))*time.Millisecond)
	case 5:
		name = "stray-unused-id-first"
		c.Count("fault.stray_id", 1)
		stray := *rsp
		stray.RequestID = req.RequestID ^ 0x40000000
		stray.Buffer = []byte("stray")
		send(&stray, 0)
		send(rsp, time.Duration(simrt.Draw(10, "c08.d"))*time.Millisecond)
	case 6:
		name = "push-frame-first"
		c.Count("fault.push_frame", 1)
		push := &refcodec.Response{Version: 1, RequestID: 0, Buffer: []byte("pushed"), Status: map[string]string{}, ResultDesc: "hello"}
		send(push, 0)
		s.mu.Lock()
		s.pushSent++
		s.mu.Unlock()
		send(rsp, 0)
	case 10:
		// the server announces a graceful stop (id 0, "_reconnect_") while this call and possibly
		// others are pending on the connection, and answers them on that connection afterwards
		name = "reconnect-notice-first"
		c.Count("fault.reconnect_notice_with_calls_pending", 1)
		send(&refcodec.Response{Version: 1, RequestID: 0, ResultDesc: "_reconnect_", Status: map[string]string{}}, 0)
		send(rsp, time.Duration(simrt.Draw(150, "c08.d"))*time.Millisecond)
	case 11:
		// the response arrives in two pieces with a pause longer than the client's read time-out
		// between them (a slow link, a peer that flushes in two steps)
		name = "split across a pause"
		c.Count("fault.response_split_across_pause", 1)
		raw := refcodec.EncodeResponse(rsp)
		k := 1 + simrt.Draw(len(raw)-1, "c08.splitat")
		d := time.Duration(120+simrt.Draw(80, "c08.d")) * time.Millisecond
		simrt.Go(func() { wrote(rsp, sc.WriteSplit(raw, k, d)) })
	case 7:
		name = "around-deadline"
		c.Count("fault.response_near_deadline", 1)
		d := to + time.Duration(simrt.Draw(7, "c08.near")-3)*time.Millisecond
		send(rsp, d)
	case 8:
		name = "late"
		c.Count("fault.response_late", 1)
		send(rsp, to+time.Duration(1+simrt.Draw(200, "c08.d"))*time.Millisecond)
	case 9:
		name = "replay-completed"
		c.Count("fault.replayed_old_response", 1)
		send(rsp, 0)
		send(rsp, to/2+time.Duration(simrt.Draw(50, "c08.d"))*time.Millisecond)
	}
	if req.PacketType == 1 {
		c.Count("probe.oneway_answered_by_peer", 1)
	}
	s.mu.Lock()
	s.plans[req.RequestID] = name
	if s.drop != nil && s.dropped == "" && (plan == 3 || plan >= 7) && simrt.Draw(2, "c08.dropnow") == 1 {
		s.drop(strings.Split(sc.Srv.Addr, ":")[0])
	}
	s.mu.Unlock()
}

func (s *S) Check(c *scen.Ctx, res *simrt.Result) {
	s.mu.Lock()
	defer s.mu.Unlock()
	if len(s.srvs) == 0 {
		return
	}
	var reqs []world.ReqRec
	for _, sv := range s.srvs {
		reqs = append(reqs, sv.Requests()...)
	}
	byPayload := map[string][]world.ReqRec{}
	for _, r := range reqs {
		byPayload[string(r.Req.Buffer)] = append(byPayload[string(r.Req.Buffer)], r)
		if r.Req.RequestID == 0 {
			c.Fail("C08", "id-zero", "wire", "a request with id 0 (reserved for server push) was put on the wire: func %s payload %q", r.Req.Func, r.Req.Buffer)
		}
		if r.Req.RequestID < 0 {
			c.Count("probe.negative_id_on_wire", 1)
		}
	}
	for _, cl := range s.calls {
		rs := byPayload[string(cl.payload)]
		if len(rs) > 1 {
			c.Fail("C08", "request-duplicated", "wire", "the request of call %d/%d appeared %d times on the wire", cl.caller, cl.k, len(rs))
		}
		if len(rs) >= 1 {
			cl.wireID, cl.seenOnWire = rs[0].Req.RequestID, true
		}
		if !cl.done {
			if res.Status == "ok" || res.Status == "simlimit" {
				c.Fail("C08", "call-never-returned", "TarsInvoke", "call %d/%d (wire id %d, server plan %q) did not return (run status %s)", cl.caller, cl.k, cl.wireID, s.plans[cl.wireID], res.Status)
			}
			continue
		}
		if cl.oneway {
			continue
		}
		if cl.err != nil {
			if !strings.Contains(cl.err.Error(), "timeout") {
				c.Fail("C08", "unexpected-error", "TarsInvoke", "call %d/%d failed with a non-timeout error on a fault-free network: %v", cl.caller, cl.k, cl.err)
			} else {
				c.Count("probe.call_timed_out", 1)
				if strings.Contains(s.plans[cl.wireID], "immediate") {
					c.Count("probe.timeout_despite_prompt_reply", 1)
				}
				// Without injected stalls nothing in the simulated world is slow. If the peer wrote the
				// response with this call's id early enough to reach the client (at most 110ms of
				// simulated delivery delay) well before the caller gave up, the caller must get it:
				// "or else a timeout error" is for responses that do not arrive in time, not for
				// ones the client had and dropped.
				if at, ok := s.replyAt[cl.wireID]; ok && cl.seenOnWire && res.Stalls == 0 && !(s.registry && s.dropped != "") &&
					at+160*time.Millisecond < cl.t0+time.Duration(s.timeoutMs)*time.Millisecond {
					// where did the response go? If the client itself closed the connection that carried the
					// request while the call was waiting (its idle check), that is a cause of its own
					key, extra := "TarsInvoke", ""
					for _, r := range byPayload[string(cl.payload)] {
						for _, pr := range simnet.Pairs() {
							if pr.ID == r.Conn && pr.Client.ClosedAt >= cl.t0 && pr.Client.ClosedAt <= cl.t1 {
								if ended, _, _ := pr.S2C.Ended(); !ended || pr.S2C.EndTime > pr.Client.ClosedAt {
									key = "client-closed-connection-under-pending-call"
									extra = fmt.Sprintf("; the client closed %s itself at %v with the call pending", pr, pr.Client.ClosedAt)
								}
							}
						}
					}
					c.Fail("C08", "response-dropped", key, "call %d/%d (id %d, started at %v) ended in a time-out after %v although the peer wrote its response at %v (plan %q) and no goroutine was stalled: %v%s", cl.caller, cl.k, cl.wireID, cl.t0, cl.t1-cl.t0, at, s.plans[cl.wireID], cl.err, extra)
				}
			}
			continue
		}
		if !cl.seenOnWire {
			c.Fail("C08", "reply-without-request", "TarsInvoke", "call %d/%d returned a reply but its request never reached the server", cl.caller, cl.k)
			continue
		}
		if cl.rspID != cl.wireID || !bytes.Equal(cl.rspBuf, cl.payload) {
			c.Fail("C08", "wrong-response", "TarsInvoke", "call %d/%d sent id %d payload %q but received the response id %d payload %q (server plan %q)", cl.caller, cl.k, cl.wireID, cl.payload, cl.rspID, cl.rspBuf, s.plans[cl.wireID])
		}
	}
	if s.pushCB && s.finished && res.Stalls == 0 && !(s.registry && s.dropped != "") {
		if len(s.pushed) > s.pushSent {
			c.Fail("C08", "push-duplicated", "onPush", "the peer sent %d push frames, the push callback ran %d times", s.pushSent, len(s.pushed))
		}
		for _, b := range s.pushed {
			if b != "pushed" {
				c.Fail("C08", "push-payload", "onPush", "the push callback received %q instead of the pushed payload", b)
			}
		}
		c.Count("probe.push_frames_delivered_to_callback", len(s.pushed))
	}
	// no two concurrently outstanding calls share an id
	for i, a := range s.calls {
		for _, b := range s.calls[i+1:] {
			if a.seenOnWire && b.seenOnWire && a.wireID == b.wireID {
				aEnd, bEnd := a.s1, b.s1
				if !a.done {
					aEnd = math.MaxInt32
				}
				if !b.done {
					bEnd = math.MaxInt32
				}
				if a.s0 <= bEnd && b.s0 <= aEnd {
					c.Fail("C08", "id-shared", "genRequestID", "calls %d/%d and %d/%d were outstanding at the same time with the same request id %d", a.caller, a.k, b.caller, b.k, a.wireID)
				}
			}
		}
	}
	for i, f := range s.final {
		if s.keepAlive && res.Stalls > 0 {
			break // a keep-alive ping may be held by a goroutine the run has stalled (injected fault)
		}
		if s.finished && (f.Pending != 0 || f.QueueLen != 0) {
			c.Fail("C08", "leftover", "doInvoke", "after all calls returned and the world was idle: pending-reply table has %d entries, queueLen=%d (proxy object %d)", f.Pending, f.QueueLen, i)
		}
	}
}
