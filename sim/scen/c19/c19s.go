package c19

// c19s: the worker pool as the server uses it. A real TarsServer with MaxInvoke = N hands
// every request to its gpool; the parallelism bound and exactly-once execution must hold
// for the invocations, also when requests arrive faster than the queue drains.

import (
	"context"
	"fmt"
	"sync"
	"time"

	"github.com/TarsCloud/TarsGo/tars"
	"github.com/TarsCloud/TarsGo/tars/protocol/res/requestf"
	"github.com/TarsCloud/TarsGo/tars/transport"

	"verifsim/refcodec"
	"verifsim/scen"
	"verifsim/scen/world"
	"verifsim/simnet"
	"verifsim/simrt"
)

func init() { scen.Register("c19s", func() scen.Scenario { return &SS{} }) }

type SS struct {
	mu          sync.Mutex
	size        int
	qcap        int
	running     int
	highWater   int
	invoked     map[int32]int
	sent        map[int32]bool
	answered    map[int32]int
	conns       []*simnet.TCPConn
	done        bool
	overAt      time.Duration
	overIDs     []int32
	runIDs      map[int32]bool
	proto       string
	shutdown    bool
	shutErr     string
	closedEarly map[*simnet.TCPConn]bool
	noAnswer    map[int32]bool // requests of connections their client closed early
}

type sdisp struct{ s *SS }

func (d *sdisp) Dispatch(ctx context.Context, imp interface{}, req *requestf.RequestPacket, rsp *requestf.ResponsePacket, withCtx bool) error {
	ms := 0
	if len(req.SBuffer) >= 2 {
		ms = int(uint8(req.SBuffer[0]))<<8 | int(uint8(req.SBuffer[1]))
	}
	s := d.s
	s.mu.Lock()
	s.invoked[req.IRequestId]++
	s.running++
	s.runIDs[req.IRequestId] = true
	if s.running > s.highWater {
		s.highWater = s.running
		if s.running > s.size && s.overAt == 0 {
			s.overAt = simrt.Elapsed()
			for id := range s.runIDs {
				s.overIDs = append(s.overIDs, id)
			}
		}
	}
	s.mu.Unlock()
	simrt.Sleep(time.Duration(ms) * time.Millisecond)
	s.mu.Lock()
	s.running--
	delete(s.runIDs, req.IRequestId)
	s.mu.Unlock()
	*rsp = requestf.ResponsePacket{IVersion: req.IVersion, IRequestId: req.IRequestId, SBuffer: req.SBuffer, CPacketType: req.CPacketType}
	return nil
}

func (s *SS) Prepare(c *scen.Ctx) { world.PrepareProcess() }
func (s *SS) YieldOff() []string {
	return []string{"tars/util/rtimer", "tars/util/rogger", "tars/selector"}
}
func (s *SS) NoStalls() bool               { return true }
func (s *SS) Limits() (time.Duration, int) { return 3 * time.Minute, 1500000 }

const saddr = "10.0.0.9:1900"

func (s *SS) Run(c *scen.Ctx) {
	s.invoked, s.sent, s.answered, s.runIDs = map[int32]int{}, map[int32]bool{}, map[int32]int{}, map[int32]bool{}
	s.closedEarly, s.noAnswer = map[*simnet.TCPConn]bool{}, map[int32]bool{}
	s.size = 1 + simrt.Draw(4, "c19s.size")
	s.qcap = []int{1, 2, 3, 8, 1000, 0}[simrt.Draw(6, "c19s.qcap")]
	simnet.Cfg.Fragment = simrt.Draw(2, "c19s.frag") == 1
	c.Describe("pool", s.size)
	c.Describe("queue_cap", s.qcap)
	// the transport: the stream handler, or the datagram handler with its single receive loop;
	// and, for streams, a graceful shutdown that arrives while requests are still queued
	s.proto = []string{"tcp", "tcp", "udp"}[simrt.Draw(3, "c19s.proto")]
	s.shutdown = simrt.Draw(3, "c19s.shutdown") == 2
	simnet.Cfg.UDPDup, simnet.Cfg.UDPLoss = false, false
	shutAfter := time.Duration(simrt.Draw(40, "c19s.shutafter")) * time.Millisecond
	c.Describe("proto", s.proto)
	c.Describe("shutdown_with_backlog", s.shutdown)
	tars.VerifFreshApp()
	conf := &transport.TarsServerConf{Proto: s.proto, Address: saddr, MaxInvoke: int32(s.size), QueueCap: s.qcap,
		AcceptTimeout: 500 * time.Millisecond, IdleTimeout: 600 * time.Second}
	srv, _ := tars.VerifNewServer(&sdisp{s}, nil, true, conf)
	if err := srv.Listen(); err != nil {
		c.Inconclusive("listen: %v", err)
		return
	}
	simrt.GoNamed("server", func() { srv.Serve() })
	ncli := 1 + simrt.Draw(3, "c19s.clients")
	c.Describe("clients", ncli)
	durs := []int{0, 1, 5, 30, 120, 400}
	var nextID int32 = 500
	var total time.Duration
	var wg sync.WaitGroup
	for i := 0; i < ncli; i++ {
		n := 1 + simrt.Draw(12, "c19s.nreq")
		var reqs []*refcodec.Request
		for k := 0; k < n; k++ {
			d := durs[simrt.Draw(len(durs), "c19s.dur")]
			total += time.Duration(d) * time.Millisecond
			nextID++
			reqs = append(reqs, &refcodec.Request{Version: 1, RequestID: nextID, Servant: "App.Srv.Obj", Func: "work",
				Buffer: []byte{byte(d >> 8), byte(d), byte(i), byte(k)}, Timeout: 60000, Context: map[string]string{}, Status: map[string]string{}})
		}
		closeAfter := simrt.Draw(3, "c19s.closeafter") == 2
		closeGap := time.Duration(simrt.Draw(30, "c19s.closegap")) * time.Millisecond
		wg.Add(1)
		simrt.GoNamed(fmt.Sprintf("rawclient%d", i), func() {
			defer wg.Done()
			if s.proto == "udp" {
				u, err := simnet.ListenUDP("udp", nil)
				if err != nil {
					return
				}
				sa, _ := simnet.ResolveUDPAddr("udp", saddr)
				simrt.Go(func() {
					b := make([]byte, 65535)
					for {
						if _, _, err := u.ReadFromUDP(b); err != nil {
							return
						}
					}
				})
				for k := 0; k < len(reqs); {
					burst := 1 + simrt.Draw(6, "c19s.burst")
					for j := 0; j < burst && k < len(reqs); j, k = j+1, k+1 {
						u.WriteToUDP(refcodec.EncodeRequest(reqs[k]), sa)
					}
					if simrt.Draw(3, "c19s.pause") == 2 {
						simrt.Sleep(time.Duration(1+simrt.Draw(60, "c19s.pausems")) * time.Millisecond)
					}
				}
				return
			}
			cn, err := simnet.Dial("tcp", saddr)
			if err != nil {
				return
			}
			s.mu.Lock()
			s.conns = append(s.conns, cn.(*simnet.TCPConn))
			s.mu.Unlock()
			simrt.Go(func() {
				b := make([]byte, 4096)
				for {
					if _, err := cn.Read(b); err != nil {
						return
					}
				}
			})
			// bursts: several requests in one write, so that they arrive faster than workers free up
			for k := 0; k < len(reqs); {
				burst := 1 + simrt.Draw(6, "c19s.burst")
				var buf []byte
				for j := 0; j < burst && k < len(reqs); j, k = j+1, k+1 {
					buf = append(buf, refcodec.EncodeRequest(reqs[k])...)
					s.mu.Lock()
					s.sent[reqs[k].RequestID] = true
					s.mu.Unlock()
				}
				if _, err := cn.Write(buf); err != nil {
					return
				}
				if simrt.Draw(3, "c19s.pause") == 2 {
					simrt.Sleep(time.Duration(1+simrt.Draw(60, "c19s.pausems")) * time.Millisecond)
				}
			}
			if closeAfter {
				// a client that does not wait for answers (notifications): it closes as soon as it has
				// sent everything; what the server has read is executed all the same
				simrt.Sleep(closeGap)
				cn.Close()
				s.mu.Lock()
				s.closedEarly[cn.(*simnet.TCPConn)] = true
				s.mu.Unlock()
				c.Count("fault.client_closes_without_waiting_for_answers", 1)
			}
		})
	}
	wg.Wait()
	if s.shutdown {
		simrt.Sleep(shutAfter)
		if s.proto == "udp" {
			// datagrams keep arriving while the server shuts down, also in the very instants in which
			// the shutdown poller looks whether anything is still being handled
			simrt.GoNamed("latesender", func() {
				u, err := simnet.ListenUDP("udp", nil)
				if err != nil {
					return
				}
				sa, _ := simnet.ResolveUDPAddr("udp", saddr)
				for j := 1; j <= 8; j++ {
					simrt.Sleep(500 * time.Millisecond)
					u.WriteToUDP(refcodec.EncodeRequest(&refcodec.Request{Version: 1, RequestID: int32(900 + j), Servant: "App.Srv.Obj", Func: "work",
						Buffer: []byte{0, 0, 99, byte(j)}, Timeout: 60000, Context: map[string]string{}, Status: map[string]string{}}), sa)
				}
			})
		}
		ctx, cancel := context.WithTimeout(context.Background(), total+20*time.Second)
		if err := srv.Shutdown(ctx); err != nil {
			s.shutErr = err.Error()
		}
		cancel()
		c.Count("probe.server_shutdown_with_requests_outstanding", 1)
	}
	simrt.Sleep(total + 3*time.Second)
	s.mu.Lock()
	s.done = true
	s.mu.Unlock()
}

func (s *SS) Check(c *scen.Ctx, res *simrt.Result) {
	s.mu.Lock()
	defer s.mu.Unlock()
	if !s.done {
		if res.Status != "ok" {
			c.Inconclusive("run ended (%s) before the handlers finished", res.Status)
		}
		return
	}
	key := fmt.Sprintf("server,queue<=%d", map[bool]int{true: 8, false: 1000}[s.qcap <= 8])
	if s.highWater > s.size {
		c.Fail("C19", "parallelism", key, "a server with MaxInvoke=%d (queue capacity %d) ran %d invocations at the same time at %v (requests %v)", s.size, s.qcap, s.highWater, s.overAt, s.overIDs)
	}
	if s.highWater == s.size {
		c.Count("probe.server_pool_saturated", 1)
	}
	for _, cn := range s.conns {
		frames, _, _ := refcodec.SplitFrames(cn.Pair.S2C.Bytes(), 0)
		for _, f := range frames {
			if r, err := refcodec.DecodeResponse(f); err == nil {
				s.answered[r.RequestID]++
			}
		}
	}
	if s.shutdown {
		key += ",shutdown"
	}
	if s.proto == "tcp" {
		// the client may have written requests the server never read (it stopped reading at a
		// shutdown, or the client hung up): only what its receive loop consumed was handed to the pool
		for id := range s.sent {
			delete(s.sent, id)
		}
		for _, cn := range s.conns {
			b := cn.Pair.C2S.Bytes()
			frames, _, _ := refcodec.SplitFrames(b[:cn.Pair.C2S.ReadOffset()], 0)
			for _, f := range frames {
				if q, err := refcodec.DecodeRequest(f); err == nil {
					s.sent[q.RequestID] = true
					if s.closedEarly[cn] {
						s.noAnswer[q.RequestID] = true
					}
				}
			}
		}
	}
	if s.proto == "udp" {
		key += ",udp"
		for _, u := range simnet.UDPSockets() {
			if u.LocalAddr().String() != saddr {
				continue
			}
			for _, d := range u.Received {
				if q, err := refcodec.DecodeRequest(d); err == nil {
					s.sent[q.RequestID] = true
				}
			}
			for _, f := range u.Sent {
				if len(f) > 4 {
					if r, err := refcodec.DecodeResponse(f); err == nil {
						s.answered[r.RequestID]++
					}
				}
			}
		}
	}
	for id := range s.sent {
		if n := s.invoked[id]; n != 1 {
			c.Fail("C19", map[bool]string{true: "not-executed", false: "ran-twice"}[n == 0], key, "request %d handed to a server with a pool of %d was executed %d times", id, s.size, n)
		}
		// (a datagram read in the instant in which the shutdown closes the socket is executed; its
		// answer has nowhere to go)
		if n := s.answered[id]; n != 1 && !(s.proto == "udp" && s.shutdown && n == 0) && !(s.noAnswer[id] && n == 0) {
			c.Fail("C19", "answer-count", key, "request %d was answered %d times", id, n)
		}
	}
}
