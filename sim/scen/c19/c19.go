// Package c19: the worker pool runs every job exactly once with bounded parallelism.
package c19

import (
	"fmt"
	"sync"
	"time"

	"github.com/TarsCloud/TarsGo/tars/util/gpool"

	"verifsim/scen"
	"verifsim/simrt"
)

func init() { scen.Register("c19", func() scen.Scenario { return &S{} }) }

type job struct {
	id        int
	dur       time.Duration
	submitted bool // the send on JobQueue completed
	subStart  time.Duration
	subEnd    time.Duration
	starts    int
	ends      int
	startAt   time.Duration
	endAt     time.Duration
	startStep int
}

type S struct {
	mu          sync.Mutex
	size, qcap  int
	jobs        []*job
	running     int
	highWater   int
	inSubmit    map[int]bool // job ids whose submit is in progress
	pool        *gpool.Pool
	releaseMode int // 0 none, 1 idle, 2 while busy
	idleWait    string
	relCalled   bool
	relReturned bool
	relCallAt   time.Duration
	relRetAt    time.Duration
	relRetStep  int
	runningAtRel []int
	allDone     bool
	blockedChecks int
}

func (s *S) Prepare(c *scen.Ctx)          {}
func (s *S) YieldOff() []string           { return nil }
func (s *S) Limits() (time.Duration, int) { return 10 * time.Minute, 300000 }

var siteJob = simrt.Site("c19.job")
var siteSubmit = simrt.Site("c19.submit")

func (s *S) Run(c *scen.Ctx) {
	s.size = 1 + simrt.Draw(4, "c19.size")
	s.qcap = simrt.Draw(5, "c19.qcap")
	nsub := 1 + simrt.Draw(3, "c19.submitters")
	njobs := 1 + simrt.Draw(12, "c19.jobs")
	s.releaseMode = simrt.Draw(3, "c19.release")
	s.inSubmit = map[int]bool{}
	c.Describe("pool_size", s.size)
	c.Describe("queue_cap", s.qcap)
	c.Describe("submitters", nsub)
	c.Describe("jobs", njobs)
	c.Describe("release", []string{"none", "idle", "busy"}[s.releaseMode])
	durs := []time.Duration{0, 0, 1 * time.Millisecond, 3 * time.Millisecond, 10 * time.Millisecond, 40 * time.Millisecond}
	for i := 0; i < njobs; i++ {
		s.jobs = append(s.jobs, &job{id: i, dur: durs[simrt.Draw(len(durs), "c19.dur")]})
	}
	s.pool = gpool.NewPool(s.size, s.qcap)
	// monitor: samples quiescent states between events (jobs end on whole
	// milliseconds, the monitor wakes on half milliseconds)
	stopMon := make(chan struct{})
	simrt.GoNamed("monitor", func() {
		time.Sleep(250 * time.Microsecond)
		for {
			select {
			case <-stopMon:
				return
			default:
			}
			s.mu.Lock()
			n := len(s.inSubmit)
			rel := s.relCalled
			s.mu.Unlock()
			// work conservation: in a quiescent state a submitted job does not wait while a worker is free
			if !rel {
				s.mu.Lock()
				now := simrt.Elapsed()
				for _, j := range s.jobs {
					if j.submitted && j.starts == 0 && now-j.subEnd >= 2*time.Millisecond && s.running < s.size && s.idleWait == "" {
						s.idleWait = fmt.Sprintf("job %d was handed to the pool at %v and had not started at %v although only %d of %d workers were busy", j.id, j.subEnd, now, s.running, s.size)
					}
				}
				s.mu.Unlock()
			}
			if n > 0 && !rel {
				s.blockedChecks++
				if l, cp := len(s.pool.JobQueue), cap(s.pool.JobQueue); l < cp {
					c.Fail("C19", "blocked-while-not-full", "JobQueue", "%d submitter(s) are blocked while the queue holds %d of %d jobs (sim time %v)", n, l, cp, simrt.Elapsed())
				}
			}
			time.Sleep(time.Millisecond)
		}
	})
	var wg sync.WaitGroup
	var jobsDone sync.WaitGroup
	jobsDone.Add(njobs)
	for u := 0; u < nsub; u++ {
		u := u
		wg.Add(1)
		simrt.GoNamed(fmt.Sprintf("submitter%d", u), func() {
			defer wg.Done()
			for i := u; i < njobs; i += nsub {
				j := s.jobs[i]
				body := func() {
					s.mu.Lock()
					j.starts++
					j.startAt = simrt.Elapsed()
					j.startStep = simrt.Step()
					s.running++
					if s.running > s.highWater {
						s.highWater = s.running
					}
					if s.relReturned {
						c.Fail("C19", "start-after-release", "job", "job %d started after Release had returned", j.id)
					}
					s.mu.Unlock()
					simrt.Yield(siteJob)
					simrt.Sleep(j.dur)
					s.mu.Lock()
					s.running--
					j.ends++
					j.endAt = simrt.Elapsed()
					if j.ends == 1 {
						jobsDone.Done()
					}
					s.mu.Unlock()
				}
				s.mu.Lock()
				s.inSubmit[j.id] = true
				j.subStart = simrt.Elapsed()
				s.mu.Unlock()
				s.pool.JobQueue <- body
				s.mu.Lock()
				delete(s.inSubmit, j.id)
				j.submitted = true
				j.subEnd = simrt.Elapsed()
				s.mu.Unlock()
				simrt.Yield(siteSubmit)
			}
		})
	}
	release := func() {
		s.mu.Lock()
		s.relCalled = true
		s.relCallAt = simrt.Elapsed()
		for _, j := range s.jobs {
			if j.starts > j.ends {
				s.runningAtRel = append(s.runningAtRel, j.id)
			}
		}
		s.mu.Unlock()
		simrt.Event("Release called, running=%v", s.runningAtRel)
		s.pool.Release()
		s.mu.Lock()
		s.relReturned = true
		s.relRetAt = simrt.Elapsed()
		s.relRetStep = simrt.Step()
		s.mu.Unlock()
		simrt.Event("Release returned")
	}
	switch s.releaseMode {
	case 2:
		// release at a drawn instant while the pool may be busy
		simrt.Sleep(time.Duration(simrt.Draw(12, "c19.relat")) * 500 * time.Microsecond)
		release()
		c.Count("probe.release_with_running_jobs", btoi(len(s.runningAtRel) > 0))
		// give stragglers a chance to (wrongly) start
		simrt.Sleep(50 * time.Millisecond)
	default:
		wg.Wait()
		jobsDone.Wait()
		simrt.Sleep(0)
		s.mu.Lock()
		s.allDone = true
		s.mu.Unlock()
		if s.releaseMode == 1 {
			release()
			c.Count("probe.release_idle", 1)
			simrt.Sleep(20 * time.Millisecond)
		}
	}
	close(stopMon)
}

func btoi(b bool) int {
	if b {
		return 1
	}
	return 0
}

func (s *S) Check(c *scen.Ctx, res *simrt.Result) {
	s.mu.Lock()
	defer s.mu.Unlock()
	c.Count("probe.blocked_submitter_samples", s.blockedChecks)
	if s.idleWait != "" && res.Stalls == 0 {
		c.Fail("C19", "job-waits-while-worker-idle", "dispatch", "%s (no goroutine was stalled)", s.idleWait)
	}
	if s.highWater > s.size {
		c.Fail("C19", "parallelism", "pool", "%d jobs were running at the same time in a pool of %d workers", s.highWater, s.size)
	}
	if s.highWater == s.size && s.size > 1 {
		c.Count("probe.pool_saturated", 1)
	}
	for _, j := range s.jobs {
		if j.starts > 1 {
			c.Fail("C19", "ran-twice", "job", "job %d was executed %d times", j.id, j.starts)
		}
	}
	if s.releaseMode != 2 {
		// no release before completion: every job exactly once, and the run must finish
		if !s.allDone {
			var missing []int
			for _, j := range s.jobs {
				if j.ends == 0 {
					missing = append(missing, j.id)
				}
			}
			c.Fail("C19", "not-executed", "job", "pool not released, yet jobs %v were never completed (run status %s; %d jobs, pool %d, queue %d)", missing, res.Status, len(s.jobs), s.size, s.qcap)
			return
		}
		if s.releaseMode == 1 && !s.relReturned {
			c.Fail("C19", "release-idle-hangs", "Release", "Release of an idle pool did not return (run status %s)", res.Status)
		}
		return
	}
	if s.relReturned {
		for _, j := range s.jobs {
			if j.starts > 0 && (j.ends == 0 || j.endAt > s.relRetAt) && j.startAt <= s.relRetAt {
				c.Fail("C19", "release-before-jobs-finished", "Release", "Release returned at %v while job %d (started %v) had not finished", s.relRetAt, j.id, j.startAt)
			}
		}
	}
}
