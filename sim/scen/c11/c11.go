// Package c11: calls keep succeeding across server-initiated connection closes.
package c11

import (
	"bytes"
	"context"
	"fmt"
	"strings"
	"sync"
	"time"

	"github.com/TarsCloud/TarsGo/tars"
	"github.com/TarsCloud/TarsGo/tars/protocol/res/requestf"
	"github.com/TarsCloud/TarsGo/tars/transport"
	"github.com/TarsCloud/TarsGo/tars/util/tools"

	"verifsim/refcodec"
	"verifsim/scen"
	"verifsim/scen/world"
	"verifsim/simnet"
	"verifsim/simrt"
)

func init() {
	scen.Register("c11", func() scen.Scenario { return &S{} })
	scen.Register("c11r", func() scen.Scenario { return &S{realPeer: true} })
}

// echoDisp is the servant of the real-server variant: it echoes the request buffer.
type echoDisp struct{ s *S }

func (d *echoDisp) Dispatch(ctx context.Context, imp interface{}, req *requestf.RequestPacket, rsp *requestf.ResponsePacket, withCtx bool) error {
	*rsp = requestf.ResponsePacket{IVersion: req.IVersion, IRequestId: req.IRequestId, SBuffer: req.SBuffer, CPacketType: req.CPacketType}
	d.s.mu.Lock()
	d.s.replies[string(tools.Int8ToByte(req.SBuffer))] = replyRec{conn: -1, at: simrt.Elapsed()}
	d.s.mu.Unlock()
	simrt.Event("real server executes %s (id %d)", tools.Int8ToByte(req.SBuffer), req.IRequestId)
	return nil
}

type call struct {
	caller, k int
	payload   []byte
	t0, t1    time.Duration
	s0, s1    int
	done      bool
	err       error
	rspBuf    []byte
}

type connPlan struct {
	kind       string // keep | close-after | idle-close | notice-then-close
	after      int
	idle       time.Duration
	noticeGap  time.Duration
	answered   int
	closed     bool
	noticeEnd  int // S2C offset after the notice frame (0 = none)
	lastActive time.Duration
}

type S struct {
	mu       sync.Mutex
	calls    []*call
	srvs     []*world.Server
	plans    map[int]*connPlan // pair id -> plan
	timeout  int
	prx      *tars.ServantProxy
	finished bool
	replies  map[string]replyRec // payload -> where/when the server answered
	downFrom, downTo time.Duration
	realPeer bool
	bigCalls bool
	downs    [][2]time.Duration // further windows in which the endpoint was not reachable
	think    map[string]time.Duration // payload -> time the server took before answering
}

type replyRec struct {
	conn int
	err  error
	at   time.Duration
}

func (s *S) Prepare(c *scen.Ctx) { world.PrepareProcess() }
func (s *S) YieldOff() []string {
	return []string{"tars/util/rtimer", "tars/util/rogger", "tars/util/gpool", "tars/selector"}
}
func (s *S) NoStalls() bool                 { return true }
func (s *S) Limits() (time.Duration, int) { return 10 * time.Minute, 2000000 }

const addr = "10.0.0.9:1100"

func ms(n int) time.Duration { return time.Duration(n) * time.Millisecond }

func (s *S) Run(c *scen.Ctx) {
	s.plans = map[int]*connPlan{}
	s.replies = map[string]replyRec{}
	s.think = map[string]time.Duration{}
	s.downFrom, s.downTo = -1, -1
	simnet.Cfg.Fragment = simrt.Draw(2, "c11.frag") == 1
	simnet.Cfg.Delay = simrt.Draw(3, "c11.delay") == 2
	s.timeout = 3000
	// large requests through small socket buffers: a write can be cut short by the peer's death
	s.bigCalls = !s.realPeer && simrt.Draw(5, "c11.bigcalls") == 4
	if s.bigCalls {
		simnet.Cfg.SmallBufs = true
		simnet.Cfg.Delay = false
		c.Count("probe.large_requests", 1)
	}
	// the client's own idle time-out: a connection with a request waiting for its answer is in use
	idle := []time.Duration{0, 0, time.Second, 2 * time.Second}[simrt.Draw(4, "c11.clientidle")]
	c.Describe("client_idle_timeout", idle.String())
	ncallers := 1 + simrt.Draw(2, "c11.callers")
	// an admission limit (objqueuemax) that just fits the application's concurrency: calls that
	// failed while the server was away hold no place in the queue afterwards
	var qmax int32
	if simrt.Draw(2, "c11.objqueuemax") == 1 {
		qmax = int32(ncallers)
	}
	c.Describe("obj_queue_max", qmax)
	// a short send queue: requests that could not be sent while the server was away must not
	// stay in it and use it up
	qlen := []int{0, 0, 2, 3}[simrt.Draw(4, "c11.sendqueue")]
	c.Describe("send_queue_len", qlen)
	comm := world.NewClient(world.ClientOpts{InvokeTimeoutMs: s.timeout, IdleTimeout: idle, ObjQueueMax: qmax, QueueLen: qlen})
	if s.realPeer {
		s.runRealPeer(c)
	} else {
		srv, err := world.StartServer(addr, func(sc *world.SrvConn, req *refcodec.Request, raw []byte) { s.onRequest(c, sc, req) })
		if err != nil {
			c.Inconclusive("listen: %v", err)
			return
		}
		srv.OnAccept = func(sc *world.SrvConn) bool { s.onAccept(c, sc); return true }
		s.srvs = append(s.srvs, srv)
	}
	s.prx = world.Proxy(comm, "App.Srv.Obj@tcp -h 10.0.0.9 -p 1100 -t 3000")
	per := 2 + simrt.Draw(7, "c11.per")
	c.Describe("callers", ncallers)
	c.Describe("calls_per_caller", per)
	gaps := []int{0, 1, 10, 100, 300, 900, 1100, 2500}
	if !s.realPeer && simrt.Draw(6, "c11.restart") == 5 {
		at := ms(simrt.Draw(3000, "c11.restartat"))
		simrt.GoNamed("restarter", func() {
			simrt.Sleep(at)
			c.Count("fault.server_restart", 1)
			s.mu.Lock()
			old := s.srvs[len(s.srvs)-1]
			s.downFrom = simrt.Elapsed()
			s.mu.Unlock()
			old.Stop(true)
			// the server stays down for a drawn while: calls in that window fail (and are not judged)
			simrt.Sleep(ms([]int{0, 0, 40, 400, 1500}[simrt.Draw(5, "c11.downtime")]))
			ns, err := world.StartServer(addr, old.OnRequest)
			if err == nil {
				ns.OnAccept = old.OnAccept
				s.mu.Lock()
				s.srvs = append(s.srvs, ns)
				s.downTo = simrt.Elapsed()
				s.mu.Unlock()
			}
		})
	}
	// one warm-up call creates the adapter (two first calls racing would each
	// create their own adapter and connection, which is not what C11 is about)
	{
		var rsp requestf.ResponsePacket
		s.prx.TarsInvoke(context.Background(), 0, "echo", []byte("c11-warmup"), nil, nil, &rsp)
		simrt.Sleep(ms(gaps[simrt.Draw(len(gaps), "c11.gap")]))
	}
	var wg sync.WaitGroup
	for ci := 0; ci < ncallers; ci++ {
		ci := ci
		wg.Add(1)
		simrt.GoNamed(fmt.Sprintf("caller%d", ci), func() {
			defer wg.Done()
			for k := 0; k < per; k++ {
				cl := &call{caller: ci, k: k, payload: []byte(fmt.Sprintf("c11-%d-%d", ci, k))}
				if s.bigCalls && simrt.Draw(3, "c11.big") == 2 {
					cl.payload = append(cl.payload, bytes.Repeat([]byte{'-'}, 60000+1000*simrt.Draw(120, "c11.biglen"))...)
				}
				s.mu.Lock()
				s.calls = append(s.calls, cl)
				s.mu.Unlock()
				var rsp requestf.ResponsePacket
				cl.t0, cl.s0 = simrt.Elapsed(), simrt.Step()
				simrt.Event("call %d/%d starts", ci, k)
				err := s.prx.TarsInvoke(context.Background(), 0, "echo", cl.payload, nil, nil, &rsp)
				simrt.Event("call %d/%d returns err=%v", ci, k, err)
				s.mu.Lock()
				cl.t1, cl.s1 = simrt.Elapsed(), simrt.Step()
				cl.done, cl.err = true, err
				if err == nil {
					cl.rspBuf = tools.Int8ToByte(rsp.SBuffer)
				}
				s.mu.Unlock()
				simrt.Sleep(ms(gaps[simrt.Draw(len(gaps), "c11.gap")]))
			}
		})
	}
	wg.Wait()
	simrt.Sleep(ms(4000))
	s.mu.Lock()
	s.finished = true
	s.mu.Unlock()
}

func (s *S) onAccept(c *scen.Ctx, sc *world.SrvConn) {
	p := &connPlan{kind: "keep", lastActive: simrt.Elapsed()}
	switch simrt.Draw(6, "c11.connplan") {
	case 5:
		// the server dies in the middle of a response: the client has half a frame when the stream ends
		p.kind = "cut-mid-response"
		p.after = 1 + simrt.Draw(3, "c11.after")
	case 1, 2:
		p.kind = "close-after"
		p.after = 1 + simrt.Draw(4, "c11.after")
	case 3:
		p.kind = "idle-close"
		p.idle = ms([]int{50, 300, 1200, 2000}[simrt.Draw(4, "c11.idle")])
		simrt.Go(func() {
			for {
				simrt.Sleep(ms(25))
				s.mu.Lock()
				idle := simrt.Elapsed() - p.lastActive
				closed := p.closed
				s.mu.Unlock()
				if closed {
					return
				}
				if idle >= p.idle {
					c.Count("fault.server_idle_close", 1)
					s.closeConn(sc, p)
					return
				}
			}
		})
	case 4:
		p.kind = "notice-then-close"
		p.after = 1 + simrt.Draw(3, "c11.after")
		p.noticeGap = ms([]int{0, 5, 200, 700, 3000}[simrt.Draw(5, "c11.noticegap")])
	}
	if s.bigCalls && simrt.Draw(3, "c11.diemid") == 2 {
		// this connection's peer dies while a large request is still arriving
		sc.OnPartial = func(sc *world.SrvConn, buffered int) bool {
			if buffered < 9000 {
				return false
			}
			c.Count("fault.server_dies_mid_request", 1)
			s.mu.Lock()
			p.closed = true
			s.mu.Unlock()
			simrt.Event("server dies on conn#%d with %d bytes of a request read", sc.ID, buffered)
			return true
		}
	}
	s.mu.Lock()
	s.plans[sc.ID] = p
	s.mu.Unlock()
}

func (s *S) closeConn(sc *world.SrvConn, p *connPlan) {
	s.mu.Lock()
	p.closed = true
	s.mu.Unlock()
	simrt.Event("server closes conn#%d (%s)", sc.ID, p.kind)
	sc.Close()
}

func (s *S) onRequest(c *scen.Ctx, sc *world.SrvConn, req *refcodec.Request) {
	if simrt.Draw(6, "c11.slowreply") == 5 {
		// a slow but healthy server: this answer takes a while (less than the call's time-out);
		// other requests are served meanwhile
		d := ms(1200 + simrt.Draw(1300, "c11.think"))
		c.Count("fault.server_answers_slowly", 1)
		s.mu.Lock()
		s.think[string(req.Buffer)] = d
		s.mu.Unlock()
		simrt.Go(func() {
			simrt.Sleep(d)
			s.answer(c, sc, req)
		})
		return
	}
	s.answer(c, sc, req)
}

func (s *S) answer(c *scen.Ctx, sc *world.SrvConn, req *refcodec.Request) {
	s.mu.Lock()
	p := s.plans[sc.ID]
	s.mu.Unlock()
	if p != nil && p.kind == "cut-mid-response" {
		s.mu.Lock()
		cut := !p.closed && p.answered+1 == p.after
		s.mu.Unlock()
		if cut {
			raw := refcodec.EncodeResponse(world.Echo(req))
			n := 1 + simrt.Draw(len(raw)-1, "c11.cutat")
			c.Count("fault.server_dies_mid_response", 1)
			sc.WriteRaw(raw[:n])
			simrt.Event("server wrote %d of %d bytes of the answer to %s on conn#%d and dies", n, len(raw), req.Buffer, sc.ID)
			s.closeConn(sc, p)
			return
		}
	}
	err := sc.Reply(world.Echo(req))
	simrt.Event("server answered %s (id %d) on conn#%d err=%v", req.Buffer, req.RequestID, sc.ID, err)
	s.mu.Lock()
	s.replies[string(req.Buffer)] = replyRec{conn: sc.ID, err: err, at: simrt.Elapsed()}
	if p != nil {
		p.answered++
		p.lastActive = simrt.Elapsed()
	}
	s.mu.Unlock()
	if p == nil {
		return
	}
	switch p.kind {
	case "close-after":
		if p.answered == p.after {
			c.Count("fault.server_close_after_response", 1)
			s.closeConn(sc, p)
		}
	case "notice-then-close":
		if p.answered == p.after {
			c.Count("fault.server_reconnect_notice", 1)
			sc.Reply(&refcodec.Response{Version: 1, RequestID: 0, ResultDesc: "_reconnect_", Status: map[string]string{}})
			s.mu.Lock()
			p.noticeEnd = len(sc.C.Pair.S2C.Bytes())
			s.mu.Unlock()
			gap := p.noticeGap
			simrt.Go(func() {
				simrt.Sleep(gap)
				s.closeConn(sc, p)
			})
		}
	}
}

func (s *S) Check(c *scen.Ctx, res *simrt.Result) {
	s.mu.Lock()
	defer s.mu.Unlock()
	if len(s.srvs) == 0 && !s.realPeer {
		return
	}
	pairs := simnet.Pairs()
	// (2) never write to a connection the client itself already closed. "Already known to
	// be dead" is taken as: closed at an earlier simulated instant. A sender that had taken
	// the message off the queue in the very instant in which the receiver closed the
	// connection gets an immediate error, nothing is transmitted, and the message is re-queued.
	for _, pr := range pairs {
		if pr.Addr == addr && pr.Client.WritesAfterClose > 0 {
			c.Count("probe.write_attempt_in_the_instant_of_the_close", pr.Client.WritesAfterClose-pr.Client.LateWritesAfterClose)
		}
		if pr.Addr == addr && pr.Client.LateWritesAfterClose > 0 {
			c.Fail("C11", "write-on-closed-connection", "TarsClient.send", "the client wrote %d time(s) to %s at a later time than it had closed that connection itself (closed at %v)", pr.Client.LateWritesAfterClose, pr, pr.Client.ClosedAt)
		}
	}
	// where each connection's reconnect notification (id 0, "_reconnect_") ends in the server-to-client stream
	noticeEnd := map[int]int{}
	for _, pr := range pairs {
		if pr.Addr != addr {
			continue
		}
		off := 0
		frames, _, _ := refcodec.SplitFrames(pr.S2C.Bytes(), 0)
		for _, f := range frames {
			off += len(f)
			if r, err := refcodec.DecodeResponse(f); err == nil && r.RequestID == 0 && r.ResultDesc == "_reconnect_" {
				noticeEnd[pr.ID] = off
			}
		}
	}
	// (3) no dial while the latest connection is healthy
	var prev *simnet.ConnPair
	for _, pr := range pairs {
		if pr.Addr != addr {
			continue
		}
		if prev != nil {
			ended, _, _ := prev.S2C.Ended()
			noticeSeen := false
			if ne := noticeEnd[prev.ID]; ne > 0 {
				for _, r := range prev.S2C.Reads {
					if r.End >= ne && r.Step <= pr.DialStep {
						noticeSeen = true
					}
				}
			}
			// after a reconnect notification the adapter replaces its TarsClient (the old one
			// closes gracefully): connections of both may coexist, which is the protocol
			for _, q := range pairs {
				if ne := noticeEnd[q.ID]; ne > 0 && q.Addr == addr {
					for _, r := range q.S2C.Reads {
						if r.End >= ne && r.Step <= pr.DialStep {
							noticeSeen = true
						}
					}
				}
			}
			clientClosed := prev.Client.ClosedAt >= 0 && prev.Client.ClosedStep <= pr.DialStep
			serverEnded := ended && prev.S2C.EndStep <= pr.DialStep
			if !clientClosed && !serverEnded && !noticeSeen {
				c.Fail("C11", "dial-while-healthy", "TarsClient.ReConnect", "the client dialled %s at %v while its previous connection %s was open on both ends and had delivered no close or reconnect notification", pr, pr.DialTime, prev)
			}
		}
		prev = pr
	}
	// (1) calls issued after an observed close succeed promptly
	for _, cl := range s.calls {
		if !cl.done {
			c.Fail("C11", "call-never-returned", "TarsInvoke", "call %d/%d had not returned when the run ended (%s)", cl.caller, cl.k, res.Status)
			continue
		}
		if s.downFrom >= 0 && cl.t1 >= s.downFrom && cl.t0 <= s.downTo+ms(1) {
			continue // overlapped the restart: not counted
		}
		overl := false
		for _, d := range s.downs {
			if cl.t1 >= d[0] && cl.t0 <= d[1]+ms(1) {
				overl = true
			}
		}
		if overl {
			c.Count("probe.call_during_server_restart", 1)
			continue
		}
		// precondition at the moment of the call: every earlier connection is either
		// healthy or closed with the close already observed by the client's reader
		counted, why := true, ""
		healthy := 0
		for _, pr := range pairs {
			if pr.Addr != addr || pr.DialStep > cl.s1 {
				continue
			}
			ended, _, _ := pr.S2C.Ended()
			if ended && pr.S2C.EndStep <= cl.s1 {
				if pr.S2C.EndSeenStep < 0 || pr.S2C.EndSeenStep >= cl.s0 {
					// closed by the server before or during the call, not (yet) observed at its start
					if pr.Client.ClosedAt < 0 || pr.Client.ClosedStep >= cl.s0 {
						counted, why = false, "close in flight"
					}
				}
			} else {
				healthy++
			}
		}
		if !counted {
			c.Count("probe.call_not_counted_"+strings.ReplaceAll(why, " ", "_"), 1)
			continue
		}
		c.Count("probe.calls_counted", 1)
		rep, answered := s.replies[string(cl.payload)]
		dur := cl.t1 - cl.t0
		state := "after an observed close"
		if healthy > 0 {
			state = "on a healthy connection"
		}
		if cl.err != nil {
			key := "request-never-reached-server"
			// where did the request go? Find it in the client-to-server streams.
			for _, pr := range pairs {
				if pr.Addr != addr {
					continue
				}
				for _, d := range pr.C2S.Dropped {
					// accepted by the socket after the server had closed: lost. Was the close already
					// known to the client's receiver goroutine at that moment?
					if bytes.Contains(d.Data, cl.payload) && pr.S2C.EndSeenStep >= 0 && pr.S2C.EndSeenStep <= d.Step {
						key = "request-written-between-eof-read-and-close"
					}
				}
				off := bytes.Index(pr.C2S.Bytes(), cl.payload)
				if off < 0 {
					continue
				}
				for _, wr := range pr.C2S.Writes {
					if wr.Off <= off && off < wr.Off+wr.N {
						eofSeen := pr.S2C.EndSeenStep
						closed := pr.Client.ClosedStep
						if eofSeen >= 0 && eofSeen <= wr.Step && (pr.Client.ClosedAt < 0 || closed >= wr.Step) {
							// the sender wrote it after the receiver goroutine had read EOF on this
							// connection and before that goroutine marked the connection closed
							key = "request-written-between-eof-read-and-close"
						}
					}
				}
			}
			if answered {
				key = "reply-written-but-call-failed"
				// the server may have closed the answering connection while the reply was in flight
				for _, pr := range pairs {
					if pr.ID == rep.conn {
						if e, _, _ := pr.S2C.Ended(); e && pr.S2C.EndStep <= cl.s1 && healthy > 0 {
							key = ""
						}
					}
				}
			}
			if key != "" {
				c.Fail("C11", "call-failed", key, "call %d/%d issued at %v %s failed after %v although the server was reachable and answers everything it receives: %v", cl.caller, cl.k, cl.t0, state, dur, cl.err)
			}
			continue
		}
		if !bytes.Equal(cl.rspBuf, cl.payload) {
			c.Fail("C11", "wrong-response", "TarsInvoke", "call %d/%d got payload %q", cl.caller, cl.k, cl.rspBuf)
		}
		if dur-s.think[string(cl.payload)] > ms(s.timeout)/2 {
			c.Fail("C11", "call-slow", "TarsInvoke", "call %d/%d issued at %v %s took %v (time-out %dms): it waited instead of using a working connection", cl.caller, cl.k, cl.t0, state, dur, s.timeout)
		}
	}
}

// runRealPeer: the peer is a real TarsServer (pool 0) that closes idle connections and is
// shut down gracefully and restarted at drawn times. Between the end of a shutdown and the
// restart the endpoint is not reachable; calls overlapping such a window are not judged.
func (s *S) runRealPeer(c *scen.Ctx) {
	idle := []time.Duration{600 * time.Second, 700 * time.Millisecond, 1500 * time.Millisecond, 2 * time.Second}[simrt.Draw(4, "c11r.idle")]
	readTO := []time.Duration{100 * time.Millisecond, 300 * time.Millisecond}[simrt.Draw(2, "c11r.readto")]
	c.Describe("peer", "real TarsServer")
	c.Describe("server_idle_timeout", idle.String())
	start := func() *transport.TarsServer {
		conf := &transport.TarsServerConf{Proto: "tcp", Address: addr, QueueCap: 1000, AcceptTimeout: 500 * time.Millisecond,
			IdleTimeout: idle, ReadTimeout: readTO}
		srv, _ := tars.VerifNewServer(&echoDisp{s}, nil, true, conf)
		if err := srv.Listen(); err != nil {
			c.Inconclusive("listen: %v", err)
			return nil
		}
		simrt.GoNamed("realserver", func() { srv.Serve() })
		return srv
	}
	srv := start()
	if srv == nil {
		return
	}
	nrestart := simrt.Draw(3, "c11r.restarts")
	if nrestart > 0 {
		at := ms(200 + simrt.Draw(3000, "c11r.at"))
		gap := ms([]int{0, 30, 500}[simrt.Draw(3, "c11r.gap")])
		simrt.GoNamed("restarter", func() {
			for i := 0; i < nrestart && srv != nil; i++ {
				simrt.Sleep(at)
				c.Count("fault.graceful_shutdown_and_restart", 1)
				simrt.Event("graceful shutdown of the real server begins")
				from := simrt.Elapsed()
				ctx, cancel := context.WithTimeout(context.Background(), 5*time.Second+113*time.Microsecond)
				srv.Shutdown(ctx)
				cancel()
				// the process exits: the listener goes away, remaining connections are reset
				simnet.CloseListener(addr)
				simrt.Sleep(gap)
				srv = start()
				s.mu.Lock()
				s.downs = append(s.downs, [2]time.Duration{from, simrt.Elapsed()})
				s.mu.Unlock()
				simrt.Event("real server restarted")
			}
		})
	}
}
