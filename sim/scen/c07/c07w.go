package c07

// c07w: framing of what the real client writes. A TarsClient is handed whole packets; whatever
// happens to its connections - a peer that stops reading until the write time-out strikes in the
// middle of a large packet, a peer that closes after any number of bytes - every connection it
// opens carries a sequence of whole packets from its first byte on (the last one may be cut off
// where the connection died).

import (
	"bytes"
	"encoding/binary"
	"fmt"
	"sync"
	"time"

	"github.com/TarsCloud/TarsGo/tars"
	"github.com/TarsCloud/TarsGo/tars/protocol"
	"github.com/TarsCloud/TarsGo/tars/transport"

	"verifsim/scen"
	"verifsim/scen/world"
	"verifsim/simnet"
	"verifsim/simrt"
)

func init() { scen.Register("c07w", func() scen.Scenario { return &W{} }) }

type W struct {
	mu     sync.Mutex
	frames map[uint32][]byte
	done   bool
	got    int
}

type wProto struct{ w *W }

func (p *wProto) Recv(pkg []byte) {
	p.w.mu.Lock()
	p.w.got++
	p.w.mu.Unlock()
}
func (p *wProto) ParsePackage(b []byte) (int, int) { return (&protocol.TarsProtocol{}).ParsePackage(b) }

func (w *W) Prepare(c *scen.Ctx) { world.PrepareProcess() }
func (w *W) YieldOff() []string {
	return []string{"tars/util/rtimer", "tars/util/rogger", "tars/selector"}
}
func (w *W) NoStalls() bool                 { return true }
func (w *W) Limits() (time.Duration, int) { return 5 * time.Minute, 3000000 }

const wAddr = "10.0.0.8:3100"

func wFrame(id uint32, n int) []byte {
	f := make([]byte, n)
	binary.BigEndian.PutUint32(f, uint32(n))
	binary.BigEndian.PutUint32(f[4:], id)
	for i := 8; i < n; i++ {
		f[i] = byte(id*31) ^ byte(i*7) ^ byte(i>>8)
	}
	return f
}

type wPlan struct {
	read  int    // bytes the peer reads on this connection before it acts
	after string // stall (stop reading past the client's write time-out, then close) | close
}

func (w *W) Run(c *scen.Ctx) {
	w.frames = map[uint32][]byte{}
	protocol.SetMaxPackageLength(10485760)
	simnet.Cfg.SmallBufs = true
	simnet.Cfg.Fragment = simrt.Draw(2, "c07w.frag") == 1
	simnet.Cfg.Delay = simrt.Draw(3, "c07w.delay") == 2
	tars.VerifFreshApp()
	wto := []time.Duration{300 * time.Millisecond, time.Second, 3 * time.Second}[simrt.Draw(3, "c07w.writeto")]
	c.Describe("client_write_timeout", wto.String())
	nf := 2 + simrt.Draw(10, "c07w.frames")
	sizes := []int{8, 60, 4096, 4097, 20000, 70000, 150000}
	var order []uint32
	total := 0
	for i := 0; i < nf; i++ {
		id := uint32(1000 + i)
		n := sizes[simrt.Draw(len(sizes), "c07w.size")]
		w.frames[id] = wFrame(id, n)
		order = append(order, id)
		total += n
	}
	var plans []wPlan
	for i, n := 0, simrt.Draw(4, "c07w.breaks"); i < n; i++ {
		plans = append(plans, wPlan{read: simrt.Draw(total+1, "c07w.readbefore"), after: []string{"stall", "stall", "close"}[simrt.Draw(3, "c07w.after")]})
	}
	c.Describe("packets", nf)
	c.Describe("bytes", total)
	c.Describe("connection_breaks", len(plans))
	l, err := simnet.Listen("tcp", wAddr)
	if err != nil {
		c.Inconclusive("listen: %v", err)
		return
	}
	simrt.GoNamed("rawserver", func() {
		for j := 0; ; j++ {
			conn, err := l.Accept()
			if err != nil {
				return
			}
			var p *wPlan
			if j < len(plans) {
				p = &plans[j]
			}
			simrt.GoNamed(fmt.Sprintf("rawserver-conn%d", j), func() {
				b := make([]byte, 4096)
				n := 0
				for p == nil || n < p.read {
					lim := len(b)
					if p != nil && p.read-n < lim {
						lim = p.read - n
					}
					k, err := conn.Read(b[:lim])
					if err != nil {
						return
					}
					n += k
				}
				if p.after == "stall" {
					simrt.Sleep(wto + 700*time.Millisecond)
					c.Count("fault.peer_stops_reading_past_the_write_timeout", 1)
				} else {
					c.Count("fault.peer_closes_mid_stream", 1)
				}
				conn.Close()
			})
		}
	})
	tc := transport.NewTarsClient(wAddr, &wProto{w}, &transport.TarsClientConf{Proto: "tcp", QueueLen: 10,
		IdleTimeout: 600 * time.Second, ReadTimeout: 100 * time.Millisecond, WriteTimeout: wto, DialTimeout: 3 * time.Second})
	for _, id := range order {
		tc.Send(w.frames[id]) // a packet the client does not accept is simply not sent
		if simrt.Draw(3, "c07w.pause") == 2 {
			simrt.Sleep(time.Duration(1+simrt.Draw(400, "c07w.pausems")) * time.Millisecond)
		}
	}
	// a last small packet some time later, so that a connection lost at the very end is replaced too
	simrt.Sleep(time.Duration(len(plans)+1)*(wto+time.Second) + 2*time.Second)
	last := uint32(999)
	w.frames[last] = wFrame(last, 16)
	tc.Send(w.frames[last])
	for i := 0; i < 40 && !simnet.Drained(); i++ {
		simrt.Sleep(500 * time.Millisecond)
	}
	simrt.Sleep(2 * time.Second)
	w.mu.Lock()
	w.done = true
	w.mu.Unlock()
}

func (w *W) Check(c *scen.Ctx, res *simrt.Result) {
	w.mu.Lock()
	defer w.mu.Unlock()
	if !w.done {
		if res.Status != "ok" {
			c.Inconclusive("run ended (%s) before the client had finished", res.Status)
		}
		return
	}
	pairs := simnet.PairsTo(wAddr)
	if len(pairs) > 1 {
		c.Count("probe.client_reconnected_after_lost_connection", 1)
	}
	for ci, pr := range pairs {
		b := pr.C2S.Bytes()
		for off, k := 0, 0; off < len(b); k++ {
			rest := b[off:]
			if len(rest) < 8 {
				break // cut off inside the head of a packet: nothing to compare
			}
			n := int(binary.BigEndian.Uint32(rest))
			id := binary.BigEndian.Uint32(rest[4:])
			f, ok := w.frames[id]
			if !ok || n != len(f) {
				c.Fail("C07", "written-stream-not-framed", "client-sender", "connection %d of the client (%d bytes written): packet %d starts at offset %d with length prefix %d and id %d, which is no packet the client was given (first bytes % x)", ci, len(b), k, off, n, id, rest[:8])
				return
			}
			if len(rest) < n {
				if !bytes.Equal(rest, f[:len(rest)]) {
					c.Fail("C07", "written-stream-content", "client-sender", "connection %d: the cut-off last packet (id %d, %d of %d bytes) differs from the packet the client was given", ci, id, len(rest), n)
					return
				}
				c.Count("probe.connection_died_inside_a_packet", 1)
				break
			}
			if !bytes.Equal(rest[:n], f) {
				c.Fail("C07", "written-stream-content", "client-sender", "connection %d: packet %d (id %d, %d bytes at offset %d) differs from the packet the client was given", ci, k, id, n, off)
				return
			}
			off += n
		}
	}
}
