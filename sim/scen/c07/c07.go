// Package c07: stream framing is independent of TCP segmentation and bounds packet size.
package c07

import (
	"bytes"
	"context"
	"encoding/binary"
	"fmt"
	"sort"
	"strconv"
	"strings"
	"sync"
	"time"

	"github.com/TarsCloud/TarsGo/tars"
	"github.com/TarsCloud/TarsGo/tars/protocol"
	"github.com/TarsCloud/TarsGo/tars/transport"
	"github.com/TarsCloud/TarsGo/tars/util/current"

	"verifsim/refcodec"
	"verifsim/scen"
	"verifsim/scen/world"
	"verifsim/simnet"
	"verifsim/simrt"
)

func init() { scen.Register("c07", func() scen.Scenario { return &S{} }) }

type got struct {
	gid  string
	pkg  []byte
	step int
}

// stream is what one scripted writer sends on one connection.
type stream struct {
	idx      int
	frames   [][]byte // legal frames, in order, before the illegal prefix (if any)
	illegal  []byte   // illegal prefix + trailing bytes (nil if none)
	after    [][]byte // well-formed frames written after the illegal prefix: must never be delivered
	sentAll  bool
	illegalSentAt time.Duration
	port     string
}

type S struct {
	mu      sync.Mutex
	maxLen  int
	pool    int
	// server side
	srvGot  map[string][]got // client port -> packets seen by Invoke
	srvStreams []*stream
	// client side
	cliGot  [][]got // per client index
	cliStreams []*stream
	cliPrelude []bool
	clients []*transport.TarsClient
	done    bool
	writeTO time.Duration
	echo    bool // the server answers every packet with the packet itself (frames travel back through its writer)
}

func (s *S) Prepare(c *scen.Ctx) { world.PrepareProcess() }
func (s *S) YieldOff() []string {
	return []string{"tars/util/rtimer", "tars/util/rogger", "tars/selector"}
}
// NoStalls: a goroutine stalled for seconds (the slow-node fault) defeats the
// quiescence wait of this scenario and trips write deadlines; it adds nothing
// to a property about segmentation.
func (s *S) NoStalls() bool { return true }
func (s *S) Limits() (time.Duration, int) { return 10 * time.Minute, 4000000 }

// ---- recording protocols (ParsePackage is the real one) ----

type srvProto struct{ s *S }

func (p *srvProto) Invoke(ctx context.Context, pkg []byte) []byte {
	port, _ := current.GetClientPortFromContext(ctx)
	p.s.mu.Lock()
	p.s.srvGot[port] = append(p.s.srvGot[port], got{simrt.CurID(), append([]byte(nil), pkg...), simrt.Step()})
	p.s.mu.Unlock()
	if p.s.echo {
		return append([]byte(nil), pkg...)
	}
	return []byte{0, 0, 0, 5, 0xaa}
}
// (the framing decision is the server protocol's own: tars.Protocol.ParsePackage)
var realSrvProto = tars.NewTarsProtocol(nil, nil, false)

func (p *srvProto) ParsePackage(b []byte) (int, int) { return realSrvProto.ParsePackage(b) }
func (p *srvProto) InvokeTimeout(pkg []byte) []byte   { return []byte{0, 0, 0, 5, 0xbb} }
func (p *srvProto) GetCloseMsg() []byte               { return []byte{0, 0, 0, 5, 0xcc} }
func (p *srvProto) DoClose(ctx context.Context)       {}

type cliProto struct {
	s   *S
	idx int
}

func (p *cliProto) Recv(pkg []byte) {
	p.s.mu.Lock()
	p.s.cliGot[p.idx] = append(p.s.cliGot[p.idx], got{simrt.CurID(), append([]byte(nil), pkg...), simrt.Step()})
	p.s.mu.Unlock()
}
func (p *cliProto) ParsePackage(b []byte) (int, int) { return (&protocol.TarsProtocol{}).ParsePackage(b) }

// ---- workload ----

func mkFrame(n int, tag string) []byte {
	f := make([]byte, n)
	binary.BigEndian.PutUint32(f, uint32(n))
	body := []byte(tag)
	for i := 4; i < n; i++ {
		f[i] = body[(i-4)%len(body)] ^ byte((i-4)/len(body))
	}
	return f
}

func (s *S) drawStream(c *scen.Ctx, side string, idx int, budget *int) *stream {
	st := &stream{idx: idx}
	n := 1 + simrt.Draw(12, "c07.nframes")
	M := s.maxLen
	for i := 0; i < n; i++ {
		var ln int
		switch simrt.Draw(9, "c07.len") {
		case 0:
			ln = 4
		case 1:
			ln = 5
		case 2:
			ln = 6 + simrt.Draw(60, "c07.small")
		case 3:
			ln = 4090 + simrt.Draw(14, "c07.4k")
		case 4:
			ln = M - 1
		case 5:
			ln = M
			c.Count("probe.frame_of_exactly_max_length", 1)
		case 6:
			ln = 8192 + simrt.Draw(3000, "c07.8k")
		default:
			ln = 4 + simrt.Draw(300, "c07.mid")
		}
		if ln > M {
			ln = M
		}
		if ln < 4 {
			ln = 4
		}
		if ln > *budget {
			ln = 4 + simrt.Draw(40, "c07.small")
			if ln > M {
				ln = M
			}
		}
		*budget -= ln
		st.frames = append(st.frames, mkFrame(ln, fmt.Sprintf("%s%d-f%d|", side, idx, i)))
	}
	if simrt.Draw(3, "c07.illegal") == 2 {
		var pfx uint32
		switch simrt.Draw(5, "c07.illkind") {
		case 0:
			pfx = uint32(simrt.Draw(4, "c07.lt4")) // 0..3
			c.Count("fault.length_below_header", 1)
		case 1:
			pfx = uint32(M + 1)
			c.Count("fault.length_max_plus_one", 1)
		case 2:
			pfx = 0x7fffffff
			c.Count("fault.length_huge", 1)
		case 3:
			pfx = 0xffffffff
			c.Count("fault.length_huge", 1)
		default:
			pfx = uint32(M + 1 + simrt.Draw(5000, "c07.over"))
			c.Count("fault.length_over_max", 1)
		}
		st.illegal = make([]byte, 4+simrt.Draw(6, "c07.illtail"))
		if side == "S" && pfx > uint32(M) && pfx <= 12000 && simrt.Draw(2, "c07.illfull") == 1 {
			// the over-long packet arrives whole (and a little more): being completely buffered
			// does not make it legal
			st.illegal = make([]byte, int(pfx)+simrt.Draw(9, "c07.illtail"))
			c.Count("fault.over_long_packet_completely_buffered", 1)
		}
		binary.BigEndian.PutUint32(st.illegal, pfx)
		for i := 4; i < len(st.illegal); i++ {
			st.illegal[i] = 0x5a
		}
		for i := 0; i < 1+simrt.Draw(3, "c07.after"); i++ {
			st.after = append(st.after, mkFrame(8+simrt.Draw(20, "c07.small"), fmt.Sprintf("%s%d-AFTER%d|", side, idx, i)))
		}
	}
	return st
}

// writeStream writes the concatenated stream in tape-drawn chunks.
func writeStream(c *scen.Ctx, w func([]byte) error, st *stream, bigOK bool) {
	var all []byte
	for _, f := range st.frames {
		all = append(all, f...)
	}
	legalEnd := len(all)
	all = append(all, st.illegal...)
	for _, f := range st.after {
		all = append(all, f...)
	}
	mode := simrt.Draw(4, "c07.wmode")
	off := 0
	small := 0
	for off < len(all) {
		n := len(all) - off
		m := mode
		if small > 2500 { // long streams: the fine-grained part is over, the rest goes in large pieces
			m = 4
		}
		small++
		switch m {
		case 4:
			if n > 262144 {
				n = 262144
			}
		case 1: // single bytes
			n = 1
		case 2: // random chunks
			k := []int{1, 2, 3, 4, 5, 7, 64, 1000, 4096, 5000}[simrt.Draw(10, "c07.chunk")]
			if k < n {
				n = k
			}
		case 3: // cut inside the next length prefix when possible
			k := 1 + simrt.Draw(9, "c07.chunk")
			if k < n {
				n = k
			}
		}
		if off < legalEnd && off+n > legalEnd && st.illegal != nil {
			n = legalEnd - off // the illegal part is written separately so its time is known
		}
		if off == legalEnd && st.illegal != nil {
			st.illegalSentAt = simrt.Elapsed()
		}
		if err := w(all[off : off+n]); err != nil {
			return
		}
		off += n
		if simrt.Draw(6, "c07.pause") == 5 {
			simrt.Sleep(time.Duration(1+simrt.Draw(30, "c07.pausems")) * time.Millisecond)
			c.Count("probe.pause_mid_stream", 1)
		}
	}
	st.sentAll = true
}

const srvAddr = "10.0.0.9:2000"

func (s *S) Run(c *scen.Ctx) {
	s.maxLen = []int{10485760, 64, 1000, 4096, 200000}[simrt.Draw(5, "c07.max")]
	protocol.SetMaxPackageLength(s.maxLen)
	s.pool = []int{0, 0, 1, 3}[simrt.Draw(4, "c07.pool")]
	simnet.Cfg.Fragment = simrt.Draw(4, "c07.frag") != 0
	simnet.Cfg.Delay = simrt.Draw(3, "c07.delay") == 2
	simnet.Cfg.SmallBufs = simrt.Draw(3, "c07.bufs") == 2
	if s.maxLen > 1000000 { // 10 MiB frames: keep the transfer cheap
		simnet.Cfg.Delay, simnet.Cfg.SmallBufs = false, false
	} else if s.maxLen > 100000 { // 200 KB frames: delivery delays per small segment add up to minutes
		simnet.Cfg.Delay = false
	}
	s.srvGot = map[string][]got{}
	c.Describe("max_package_length", s.maxLen)
	c.Describe("server_pool", s.pool)
	c.Describe("fragmented_reads", simnet.Cfg.Fragment)
	tars.VerifFreshApp()
	budget := 200000
	if s.maxLen > 1000000 {
		budget = 12 << 20
	} else if s.maxLen > 100000 {
		budget = 1500000 // several packets of 200 KB: their echoes are written by concurrent handlers
	}
	// ---- server side: real TarsServer + tcpHandler, scripted raw writers ----
	// the other direction: in half of the runs with moderate frame sizes the server echoes every
	// packet, through socket buffers that may be small, to a client that may stop reading for a
	// while; the frames must come back intact whatever the server's write time-out is
	writeTO := time.Duration(0)
	slowReader := time.Duration(0)
	if s.maxLen <= 1000000 && simrt.Draw(2, "c07.echo") == 1 {
		s.echo = true
		writeTO = []time.Duration{0, 300 * time.Millisecond, 3 * time.Second}[simrt.Draw(3, "c07.writeto")]
		if simrt.Draw(2, "c07.slowreader") == 1 {
			slowReader = time.Duration(500+500*simrt.Draw(8, "c07.readerstall")) * time.Millisecond
			simnet.Cfg.SmallBufs = true
			c.Count("fault.client_stops_reading_for_a_while", 1)
		}
	}
	c.Describe("server_echoes", s.echo)
	c.Describe("server_write_timeout", writeTO.String())
	s.writeTO = writeTO
	// the pool's queue may be far shorter than a burst of coalesced packets: the receive loop then
	// waits for room, it does not get to skip packets
	qcap := []int{1000, 1000, 1, 2, 5}[simrt.Draw(5, "c07.queuecap")]
	c.Describe("queue_cap", qcap)
	conf := &transport.TarsServerConf{Proto: "tcp", Address: srvAddr, MaxInvoke: int32(s.pool), QueueCap: qcap,
		AcceptTimeout: 500 * time.Millisecond, IdleTimeout: 600 * time.Second, WriteTimeout: writeTO}
	srv := transport.NewTarsServer(&srvProto{s}, conf)
	if err := srv.Listen(); err != nil {
		c.Inconclusive("listen: %v", err)
		return
	}
	simrt.GoNamed("server", func() { srv.Serve() })
	nconn := 1 + simrt.Draw(3, "c07.srvconns")
	var wg sync.WaitGroup
	for i := 0; i < nconn; i++ {
		st := s.drawStream(c, "S", i, &budget)
		s.srvStreams = append(s.srvStreams, st)
		wg.Add(1)
		simrt.GoNamed(fmt.Sprintf("rawclient%d", i), func() {
			defer wg.Done()
			conn, err := simnet.Dial("tcp", srvAddr)
			if err != nil {
				return
			}
			st.port = strings.Split(conn.LocalAddr().String(), ":")[1]
			// drain what the server writes back so that it never blocks on us
			simrt.Go(func() {
				b := make([]byte, 4096)
				n := 0
				for {
					k, err := conn.Read(b)
					if err != nil {
						return
					}
					n += k
					if slowReader > 0 && n >= 4096 {
						simrt.Sleep(slowReader) // the reader stops once, with responses in flight
						slowReader = 0
					}
				}
			})
			writeStream(c, func(b []byte) error { _, err := conn.Write(b); return err }, st, true)
		})
	}
	// ---- client side: real TarsClient, scripted server streams frames at it ----
	ncli := 1 + simrt.Draw(2, "c07.clients")
	s.cliGot = make([][]got, ncli)
	for i := 0; i < ncli; i++ {
		i := i
		st := s.drawStream(c, "C", i, &budget)
		s.cliStreams = append(s.cliStreams, st)
		caddr := "10.0.0.8:" + strconv.Itoa(3000+i)
		l, err := simnet.Listen("tcp", caddr)
		if err != nil {
			c.Inconclusive("listen: %v", err)
			return
		}
		// in a third of the runs the first connection is lost in the middle of a frame: the next
		// connection's stream is framed from its own first byte
		prelude := simrt.Draw(3, "c07.prelude") == 2
		s.mu.Lock()
		s.cliPrelude = append(s.cliPrelude, prelude)
		s.mu.Unlock()
		wg.Add(1)
		simrt.GoNamed(fmt.Sprintf("rawserver%d", i), func() {
			defer wg.Done()
			if prelude {
				c0, err := l.Accept()
				if err != nil {
					return
				}
				f := append([]byte{0, 0, 0, 100}, bytes.Repeat([]byte("PRELUDE-"), 12)...)
				k := 1 + simrt.Draw(len(f)-1, "c07.preludecut")
				c0.Write(f[:k])
				simrt.Sleep(time.Duration(simrt.Draw(40, "c07.preludegap")) * time.Millisecond)
				c0.Close()
				c.Count("fault.connection_lost_mid_frame_then_reconnect", 1)
			}
			conn, err := l.Accept()
			if err != nil {
				return
			}
			simrt.Go(func() {
				b := make([]byte, 4096)
				for {
					if _, err := conn.Read(b); err != nil {
						return
					}
				}
			})
			writeStream(c, func(b []byte) error { _, err := conn.Write(b); return err }, st, true)
		})
		tc := transport.NewTarsClient(caddr, &cliProto{s, i}, &transport.TarsClientConf{Proto: "tcp", QueueLen: 10,
			IdleTimeout: 600 * time.Second, ReadTimeout: 100 * time.Millisecond, WriteTimeout: 3 * time.Second, DialTimeout: 3 * time.Second})
		s.clients = append(s.clients, tc)
		if err := tc.Send([]byte{0, 0, 0, 8, 'h', 'e', 'l', 'o'}); err != nil {
			c.Inconclusive("client send: %v", err)
		}
		if prelude {
			simrt.Go(func() {
				// the next request makes the client connect again (retried: the close may not have been noticed yet)
				for k := 0; k < 20; k++ {
					simrt.Sleep(300 * time.Millisecond)
					tc.Send([]byte{0, 0, 0, 8, 'h', 'e', 'l', 'o'})
					if len(simnet.PairsTo(caddr)) >= 2 {
						return
					}
				}
			})
		}
	}
	wg.Wait()
	// let the receivers finish: delivery delays first, then handler goroutines and the 500ms close poll
	for i := 0; i < 600 && !simnet.Drained(); i++ {
		simrt.Sleep(500 * time.Millisecond)
	}
	simrt.Sleep(3 * time.Second)
	// A pool worker that echoes a large packet to a client that has stopped reading sits in its
	// write for up to the write time-out, with the packets behind it waiting in the queue: the
	// run is over when nothing has been handed to a protocol layer and nothing has been written
	// for longer than one such write can take.
	progress := func() (int, int) {
		s.mu.Lock()
		n := 0
		for _, g := range s.srvGot {
			n += len(g)
		}
		for _, g := range s.cliGot {
			n += len(g)
		}
		s.mu.Unlock()
		b := 0
		for _, pr := range simnet.Pairs() {
			b += pr.S2C.Len() + pr.C2S.ReadOffset()
		}
		return n, b
	}
	for i := 0; i < 60; i++ {
		n0, b0 := progress()
		simrt.Sleep(s.writeTO + time.Second)
		if n1, b1 := progress(); n1 == n0 && b1 == b0 {
			break
		}
	}
	s.mu.Lock()
	s.done = true
	s.mu.Unlock()
}

func spawnIndex(gid string) int {
	if i := strings.LastIndexByte(gid, '.'); i >= 0 {
		tail := gid[i+1:]
		if j := strings.IndexByte(tail, ':'); j >= 0 {
			tail = tail[:j]
		}
		n, _ := strconv.Atoi(tail)
		return n
	}
	return 0
}

func (s *S) compare(c *scen.Ctx, side string, st *stream, gs []got, ordered bool) {
	if !st.sentAll {
		// the writer could not finish (receiver closed early): prefix property only
		c.Count("probe.writer_cut_short", 1)
	}
	if ordered {
		sort.SliceStable(gs, func(i, j int) bool { return spawnIndex(gs[i].gid) < spawnIndex(gs[j].gid) })
	}
	key := side + "-receive-loop"
	for _, g := range gs {
		for _, a := range st.after {
			if bytes.Equal(g.pkg, a) {
				c.Fail("C07", "delivered-after-illegal-length", key, "%s side: a frame written after an illegal length prefix (%x) was handed to the protocol layer", side, st.illegal[:4])
				return
			}
		}
	}
	if st.sentAll || len(gs) > len(st.frames) {
		if len(gs) != len(st.frames) {
			c.Fail("C07", "frame-count", key, "%s side, connection %d: %d legal frames were written (lengths %v), %d packets reached the protocol layer (lengths %v); max %d",
				side, st.idx, len(st.frames), lens(st.frames), len(gs), lensG(gs), s.maxLen)
			return
		}
	}
	if ordered {
		for i := range gs {
			if i < len(st.frames) && !bytes.Equal(gs[i].pkg, st.frames[i]) {
				c.Fail("C07", "frame-content", key, "%s side, connection %d: packet %d handed to the protocol layer (len %d, head %q) differs from frame %d as written (len %d, head %q)",
					side, st.idx, i, len(gs[i].pkg), head(gs[i].pkg), i, len(st.frames[i]), head(st.frames[i]))
				return
			}
		}
	} else {
		want := map[string]int{}
		for _, f := range st.frames {
			want[string(f)]++
		}
		for _, g := range gs {
			want[string(g.pkg)]--
			if want[string(g.pkg)] < 0 {
				c.Fail("C07", "frame-content", key, "%s side, connection %d: a packet (len %d, head %q) reached the protocol layer that was not written, or more often than written", side, st.idx, len(g.pkg), head(g.pkg))
				return
			}
		}
	}
}

func head(b []byte) string {
	if len(b) > 24 {
		b = b[:24]
	}
	return string(b)
}
func lens(fs [][]byte) []int {
	var o []int
	for _, f := range fs {
		o = append(o, len(f))
	}
	return o
}
func lensG(gs []got) []int {
	var o []int
	for _, g := range gs {
		o = append(o, len(g.pkg))
	}
	return o
}

func (s *S) Check(c *scen.Ctx, res *simrt.Result) {
	s.mu.Lock()
	defer s.mu.Unlock()
	if !s.done {
		if res.Status == "steplimit" {
			c.Inconclusive("step limit reached before the streams were consumed")
		} else if res.Status != "ok" {
			c.Inconclusive("run ended (%s) before the streams were consumed", res.Status)
		}
		return
	}
	pairs := simnet.Pairs()
	for _, st := range s.srvStreams {
		s.compare(c, "server", st, s.srvGot[st.port], s.pool == 0)
		if s.echo {
			// what came back: every frame in the server-to-client stream is one of the packets handed
			// to the protocol layer, whole; and all of them when the stream was legal to its end
			for _, p := range pairs {
				if p.Addr != srvAddr || !strings.HasSuffix(p.Client.LocalAddr().String(), ":"+st.port) {
					continue
				}
				want := map[string]int{}
				for _, g := range s.srvGot[st.port] {
					want[string(g.pkg)]++
				}
				back, rest, illegal := refcodec.SplitFrames(p.S2C.Bytes(), 0)
				bad := illegal
				var odd []byte
				for _, f := range back {
					want[string(f)]--
					if want[string(f)] < 0 {
						bad = true
						odd = f
					}
				}
				if bad {
					c.Fail("C07", "response-frame-content", "server-writer", "server side, connection %d: the stream the server wrote back does not consist of the packets it echoed (%d frames parsed, illegal prefix met: %v, server write time-out %v; a frame that was not echoed: len %d head %q)", st.idx, len(back), illegal, s.writeTO, len(odd), head(odd))
				} else if st.illegal == nil && st.sentAll && p.Server.ClosedAt < 0 && (len(back) != len(s.srvGot[st.port]) || len(rest) != 0) {
					c.Fail("C07", "response-frame-count", "server-writer", "server side, connection %d: %d packets were echoed, the client got %d whole frames and %d more bytes back", st.idx, len(s.srvGot[st.port]), len(back), len(rest))
				}
			}
		}
		if st.illegal != nil && st.sentAll {
			// the receiver must have closed exactly this connection
			for _, p := range pairs {
				if p.Addr == srvAddr && strings.HasSuffix(p.Client.LocalAddr().String(), ":"+st.port) && p.Server.ClosedAt < 0 {
					c.Fail("C07", "not-closed-after-illegal-length", "server-receive-loop", "server side: connection %d sent the illegal length prefix %x at %v and is still open 3s later", st.idx, st.illegal[:4], st.illegalSentAt)
				}
			}
		}
		if st.illegal == nil {
			for _, p := range pairs {
				if p.Addr == srvAddr && strings.HasSuffix(p.Client.LocalAddr().String(), ":"+st.port) && p.Server.ClosedAt >= 0 {
					c.Fail("C07", "closed-without-protocol-error", "server-receive-loop", "server side: connection %d carried only legal frames but was closed by the server at %v", st.idx, p.Server.ClosedAt)
				}
			}
		}
	}
	for i, st := range s.cliStreams {
		s.compare(c, "client", st, s.cliGot[i], true)
		addr := "10.0.0.8:" + strconv.Itoa(3000+i)
		// the connection that carried the stream: the first one, or the second when the first was lost mid-frame
		want, seen := 0, 0
		if s.cliPrelude[i] {
			want = 1
		}
		for _, p := range pairs {
			if p.Addr != addr {
				continue
			}
			seen++
			if seen-1 != want {
				continue // other connections to this address: the one lost mid-frame, or never accepted by the scripted peer
			}
			if st.illegal != nil && st.sentAll && p.Client.ClosedAt < 0 {
				c.Fail("C07", "not-closed-after-illegal-length", "client-receive-loop", "client side: connection %d received the illegal length prefix %x at %v and is still open 3s later", i, st.illegal[:4], st.illegalSentAt)
			}
			if st.illegal == nil && p.Client.ClosedAt >= 0 {
				c.Fail("C07", "closed-without-protocol-error", "client-receive-loop", "client side: connection %d carried only legal frames but was closed by the client at %v", i, p.Client.ClosedAt)
			}
		}
	}
}
