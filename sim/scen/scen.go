// Package scen holds the scenario framework: what a simulated run is, how its
// outcome is reported, and the registry of per-property scenarios.
package scen

import (
	"encoding/json"
	"fmt"
	"os"
	"sort"
	"sync"
	"time"

	"verifsim/simrt"
	"verifsim/tape"
)

// Job is what the runner hands to a run process (env VSIM_JOB, JSON).
type Job struct {
	Scenario string            `json:"scenario"`
	Seed     uint64            `json:"seed"`
	Tape     []int32           `json:"tape,omitempty"` // replay tape (nil = search mode)
	PadZero  bool              `json:"pad_zero,omitempty"`
	KeepTape bool              `json:"keep_tape,omitempty"`
	Trace    int               `json:"trace,omitempty"`
	Params   map[string]string `json:"params,omitempty"`   // scenario variant knobs (e.g. faults=off)
	Sample   bool              `json:"sample,omitempty"`   // include a written-out description of the case
	Property string            `json:"property,omitempty"` // property of the check this run belongs to
}

// Violation is one oracle failure.
type Violation struct {
	Property string `json:"property"`
	Rule     string `json:"rule"`
	Key      string `json:"key"` // call-site / wire-event key; (property, rule, key) is the class
	Msg      string `json:"msg"`
}

func (v Violation) Class() string { return v.Property + "|" + v.Rule + "|" + v.Key }

// Out is the result record a run prints.
type Out struct {
	Scenario     string         `json:"scenario"`
	Seed         uint64         `json:"seed"`
	Status       string         `json:"status"`
	ExitNote     string         `json:"exit_note,omitempty"`
	Violations   []Violation    `json:"violations,omitempty"`
	Stats        map[string]int `json:"stats,omitempty"`
	Steps        int            `json:"steps"`
	Switches     int            `json:"switches"`
	Preemptions  int            `json:"preemptions"`
	Stalls       int            `json:"stalls"`
	LockWaits    int            `json:"lock_waits"`
	Goroutines   int            `json:"goroutines"`
	Hash         string         `json:"hash"`
	SwitchHash   string         `json:"switch_hash"`
	CaseHash     string         `json:"case_hash"`
	SitePairs    []uint32       `json:"site_pairs,omitempty"`
	SimNs        int64          `json:"sim_ns"`
	Draws        int            `json:"draws"`
	Nontrivial   bool           `json:"nontrivial"`
	Tape         []int32        `json:"tape,omitempty"`
	TapeLabels   []string       `json:"tape_labels,omitempty"`
	TapeLab      []uint16       `json:"tape_lab,omitempty"`
	Sample       interface{}    `json:"sample,omitempty"`
	Dump         []string       `json:"dump,omitempty"`
	Trace        []string       `json:"trace,omitempty"`
	Events       []string       `json:"events,omitempty"`
	Inconclusive string         `json:"inconclusive,omitempty"`
}

// Ctx is handed to a scenario.
type Ctx struct {
	Job          *Job
	mu           sync.Mutex
	viol         []Violation
	stats        map[string]int
	desc         map[string]interface{}
	incon        string
	exitExpected bool
}

func NewCtx(j *Job) *Ctx {
	return &Ctx{Job: j, stats: map[string]int{}, desc: map[string]interface{}{}}
}

// Param returns a job parameter.
func (c *Ctx) Param(k, def string) string {
	if v, ok := c.Job.Params[k]; ok {
		return v
	}
	return def
}

// Fail records a violation.
func (c *Ctx) Fail(prop, rule, key, format string, args ...interface{}) {
	c.mu.Lock()
	defer c.mu.Unlock()
	if len(c.viol) < 20 {
		c.viol = append(c.viol, Violation{Property: prop, Rule: rule, Key: key, Msg: fmt.Sprintf(format, args...)})
	}
}

// Inconclusive marks the run as not judgeable (never a violation).
func (c *Ctx) Inconclusive(format string, args ...interface{}) {
	c.mu.Lock()
	defer c.mu.Unlock()
	if c.incon == "" {
		c.incon = fmt.Sprintf(format, args...)
	}
}

// Count adds to a statistics / probe counter.
func (c *Ctx) Count(name string, n int) {
	c.mu.Lock()
	c.stats[name] += n
	c.mu.Unlock()
}

// Describe stores a piece of the written-out case description.
func (c *Ctx) Describe(k string, v interface{}) {
	c.mu.Lock()
	c.desc[k] = v
	c.mu.Unlock()
}

// Violations returns the recorded violations.
// ExpectExit declares that this run ending in os.Exit (called by the code under test) is
// part of the scenario. Any other exit is a crash: the framework recovers a panic in
// CheckPanic, dumps it and terminates the process.
func (c *Ctx) ExpectExit() { c.mu.Lock(); c.exitExpected = true; c.mu.Unlock() }

func (c *Ctx) Violations() []Violation {
	c.mu.Lock()
	defer c.mu.Unlock()
	return append([]Violation(nil), c.viol...)
}

// Scenario is one property's world + workload + oracle.
type Scenario interface {
	// Prepare runs outside the bubble, before anything else (process-level setup).
	Prepare(c *Ctx)
	// YieldOff lists site prefixes whose yields are disabled.
	YieldOff() []string
	// Limits returns the sim-time and step caps of a run.
	Limits() (time.Duration, int)
	// Run is the root goroutine of the run, inside the bubble under the scheduler.
	Run(c *Ctx)
	// Check evaluates the history oracles; res tells how the run ended.
	Check(c *Ctx, res *simrt.Result)
}

// ExtraDump adds world state to the goroutine dump of unfinished runs.
var ExtraDump func() []string

var registry = map[string]func() Scenario{}

func Register(name string, f func() Scenario) { registry[name] = f }

func Lookup(name string) Scenario {
	if f, ok := registry[name]; ok {
		return f()
	}
	return nil
}

func Names() []string {
	var n []string
	for k := range registry {
		n = append(n, k)
	}
	sort.Strings(n)
	return n
}

// SchedConfig draws the scheduler configuration of a run from the tape
// (directly: this happens before the scheduler exists).
func SchedConfig(tp *tape.Tape, sc Scenario, j *Job) simrt.Config {
	lim, steps := sc.Limits()
	cfg := simrt.Config{Tape: tp, YieldOff: sc.YieldOff(), SimLimit: lim, MaxSteps: steps, TraceKeep: j.Trace}
	switch tp.Draw(6, "cfg.strategy") {
	case 0:
		cfg.Strategy, cfg.Sticky = "sticky", 0.9
	case 1:
		cfg.Strategy, cfg.Sticky = "sticky", 0.5
	case 2:
		cfg.Strategy, cfg.Sticky = "sticky", 0.98
	case 3:
		cfg.Strategy, cfg.Sticky = "sticky", 0
	case 4:
		cfg.Strategy, cfg.PCTDepth = "pct", 1+tp.Draw(3, "cfg.pctdepth")
	case 5:
		cfg.Strategy, cfg.Sticky = "sticky", 0.75
	}
	cfg.ExpectedSteps = steps / 50
	noStalls := j.Params["stalls"] == "off"
	if ns, ok := sc.(interface{ NoStalls() bool }); ok && ns.NoStalls() {
		noStalls = true
	}
	if !noStalls && tp.Draw(3, "cfg.stalls") == 2 {
		cfg.Stalls = true
		cfg.StallProb = 0.002
	}
	if tp.Draw(3, "cfg.lag") != 0 {
		cfg.LagProb = 0.3
	}
	return cfg
}

// Emit prints the result record and terminates the process.
func Emit(c *Ctx, res *simrt.Result, tp *tape.Tape) {
	o := BuildOut(c, res, tp)
	b, _ := json.Marshal(o)
	os.Stdout.WriteString("\n@@RESULT@@ " + string(b) + "\n")
}

func BuildOut(c *Ctx, res *simrt.Result, tp *tape.Tape) *Out {
	c.mu.Lock()
	defer c.mu.Unlock()
	if res.Status == "exit" && !c.exitExpected {
		prop := c.Job.Property
		if prop == "" {
			prop = "?"
		}
		c.viol = append(c.viol, Violation{Property: prop, Rule: "crash", Key: "os.Exit", Msg: "the code under test terminated the process at sim time " + res.SimElapsed.String() + ": " + res.ExitNote})
	}
	o := &Out{
		Scenario: c.Job.Scenario, Seed: c.Job.Seed, Status: res.Status, ExitNote: res.ExitNote,
		Violations: c.viol, Stats: c.stats, Steps: res.Steps, Switches: res.Switches, Preemptions: res.Preemptions,
		Stalls: res.Stalls, LockWaits: res.LockWaits, Goroutines: res.Goroutines,
		Hash: fmt.Sprintf("%016x", res.Hash), SwitchHash: fmt.Sprintf("%016x", res.SwitchHash),
		SitePairs: res.SitePairs, SimNs: int64(res.SimElapsed), Draws: len(tp.Eff), Inconclusive: c.incon,
	}
	if res.Lags > 0 {
		c.stats["fault.goroutine_falls_behind_after_network_event"] += res.Lags
	}
	faults := 0
	for k, v := range c.stats {
		if len(k) > 6 && k[:6] == "fault." {
			faults += v
		}
	}
	o.Nontrivial = res.Preemptions > 0 || faults > 0 || res.Stalls > 0
	o.CaseHash = fmt.Sprintf("%016x", res.Hash^(res.SwitchHash*0x9e3779b97f4a7c15))
	if c.Job.KeepTape || len(c.viol) > 0 || res.Status != "ok" {
		o.Tape = tp.Eff
		o.TapeLabels = tp.Labels()
		o.TapeLab = tp.Lab
	}
	if c.Job.Sample || len(c.viol) > 0 {
		o.Sample = c.desc
	}
	if len(c.viol) > 0 || res.Status != "ok" || c.Job.Trace > 0 {
		o.Dump = res.Dump
		if res.Status != "ok" && ExtraDump != nil {
			o.Dump = append(o.Dump, ExtraDump()...)
		}
		o.Trace = res.Trace
		o.Events = res.Events
	}
	return o
}
