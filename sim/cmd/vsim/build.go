package main

import (
	"bytes"
	"go/ast"
	"go/parser"
	"go/token"
	"strconv"

	"verifsim/idlgen"
	"fmt"
	"os"
	"os/exec"
	"path/filepath"
	"strings"
)

var instrPkgs = []string{
	"tars", "tars/protocol", "tars/transport", "tars/util/gpool", "tars/util/rtimer", "tars/util/rogger",
	"tars/util/grace", "tars/util/tools/ip.go",
	"tars/selector", "tars/selector/roundrobin", "tars/selector/random", "tars/selector/modhash", "tars/selector/consistenthash",
}

const goBin = "go1.26.8"

type buildInfo struct {
	Binary string
	Mode   string // full | noselect | synconly
	Log    string
}

func runCmd(dir string, env []string, name string, args ...string) (string, error) {
	cmd := exec.Command(name, args...)
	cmd.Dir = dir
	cmd.Env = append(os.Environ(), env...)
	var out bytes.Buffer
	cmd.Stdout = &out
	cmd.Stderr = &out
	err := cmd.Run()
	return out.String(), err
}

func simDir() string { return filepath.Join(verifDir, "sim") }

func ensureInstrumenter() (string, error) {
	bin := filepath.Join(verifDir, "bin", "instrument")
	src := filepath.Join(simDir(), "instrument", "main.go")
	bi, err1 := os.Stat(bin)
	si, err2 := os.Stat(src)
	if err1 == nil && err2 == nil && !si.ModTime().After(bi.ModTime()) {
		return bin, nil
	}
	os.MkdirAll(filepath.Dir(bin), 0755)
	if out, err := runCmd(simDir(), nil, goBin, "build", "-o", bin, "./instrument"); err != nil {
		return "", fmt.Errorf("building instrumenter: %v\n%s", err, out)
	}
	return bin, nil
}

// buildFor instruments the repository's working tree and builds the run
// binary of property p. Build trouble is reported as an error (exit 2), never
// as a violation.
func buildFor(p *prop) (*buildInfo, error) {
	instr, err := ensureInstrumenter()
	if err != nil {
		return nil, err
	}
	bdir := filepath.Join(verifDir, ".build", p.ID)
	os.RemoveAll(filepath.Join(bdir, "inst"))
	os.MkdirAll(bdir, 0755)
	// module file pointing at the repository under test
	gomod, err := os.ReadFile(filepath.Join(simDir(), "go.mod"))
	if err != nil {
		return nil, err
	}
	mod := strings.Replace(string(gomod), "=> /repo", "=> "+repoDir, 1)
	modfile := filepath.Join(bdir, "go.mod")
	os.WriteFile(modfile, []byte(mod), 0644)
	if sum, err := os.ReadFile(filepath.Join(simDir(), "go.sum")); err == nil {
		os.WriteFile(filepath.Join(bdir, "go.sum"), sum, 0644)
	}
	extra := ""
	if p.NeedsGen {
		ex, err := generateIDL(bdir)
		if err != nil {
			return nil, err
		}
		extra = ex
	}
	if ex, err := generateMsgIDShim(bdir); err != nil {
		return nil, err
	} else if extra == "" {
		extra = ex
	} else {
		extra += "," + ex
	}
	var lastOut string
	for _, mode := range []string{"full", "noselect", "synconly"} {
		args := []string{"-out", bdir, "-repo", repoDir, "-simdir", simDir(), "-shims", filepath.Join(simDir(), "shims")}
		if extra != "" {
			args = append(args, "-extra", extra)
		}
		switch mode {
		case "noselect":
			args = append(args, "-noselect")
		case "synconly":
			args = append(args, "-noselect", "-synconly")
		}
		args = append(args, instrPkgs...)
		out, err := runCmd(simDir(), nil, instr, args...)
		if err != nil {
			return nil, fmt.Errorf("instrumenter failed: %v\n%s", err, out)
		}
		bin := filepath.Join(bdir, p.Binary+".test")
		out2, err := runCmd(simDir(), nil, goBin, "test", "-c", "-vet=off", "-modfile="+modfile, "-overlay", filepath.Join(bdir, "overlay.json"), "-o", bin, "./cmd/"+p.Binary)
		if err == nil {
			return &buildInfo{Binary: bin, Mode: mode, Log: out + out2}, nil
		}
		lastOut = out + out2
		fmt.Fprintf(os.Stderr, "vsim: build in mode %q failed, trying a weaker instrumentation\n", mode)
	}
	return nil, fmt.Errorf("harness does not build against %s:\n%s", repoDir, lastOut)
}

// generateMsgIDShim writes the accessor the scenarios use to move the request-id counter
// next to its wrap-around. Where the counter lives is an implementation detail of the
// tree under test (a package variable today), so the accessor is generated from what the
// tree declares instead of being a fixed shim that would stop building when it moves.
func generateMsgIDShim(bdir string) (string, error) {
	dir := filepath.Join(repoDir, "tars")
	fset := token.NewFileSet()
	pkgs, err := parser.ParseDir(fset, dir, func(fi os.FileInfo) bool { return !strings.HasSuffix(fi.Name(), "_test.go") }, 0)
	if err != nil {
		return "", fmt.Errorf("parsing %s: %v", dir, err)
	}
	global, field, genMethod := false, false, false
	respKind := "" // how AdapterProxy keeps its pending-reply table: map (sync.Map) | array (of sync.Map) | unknown
	for _, pkg := range pkgs {
		for _, f := range pkg.Files {
			for _, d := range f.Decls {
				if fd, ok := d.(*ast.FuncDecl); ok && fd.Name.Name == "genRequestID" && fd.Recv != nil && len(fd.Recv.List) == 1 && len(fd.Type.Params.List) == 0 {
					if st, ok := fd.Recv.List[0].Type.(*ast.StarExpr); ok {
						if id, ok := st.X.(*ast.Ident); ok && id.Name == "ServantProxy" {
							genMethod = true
						}
					}
				}
				g, ok := d.(*ast.GenDecl)
				if !ok {
					continue
				}
				for _, sp := range g.Specs {
					switch t := sp.(type) {
					case *ast.ValueSpec:
						for _, n := range t.Names {
							if g.Tok == token.VAR && n.Name == "msgID" {
								global = true
							}
						}
					case *ast.TypeSpec:
						if st, ok := t.Type.(*ast.StructType); ok && t.Name.Name == "AdapterProxy" {
							for _, fl := range st.Fields.List {
								for _, n := range fl.Names {
									if n.Name != "resp" {
										continue
									}
									switch ft := fl.Type.(type) {
									case *ast.SelectorExpr:
										if id, ok := ft.X.(*ast.Ident); ok && id.Name == "sync" && ft.Sel.Name == "Map" {
											respKind = "map"
										}
									case *ast.ArrayType:
										if se, ok := ft.Elt.(*ast.SelectorExpr); ok && se.Sel.Name == "Map" {
											respKind = "array"
										}
									}
								}
							}
						}
						if st, ok := t.Type.(*ast.StructType); ok && t.Name.Name == "ServantProxy" {
							for _, fl := range st.Fields.List {
								for _, n := range fl.Names {
									if n.Name == "msgID" {
										field = true
									}
								}
							}
						}
					}
				}
			}
		}
	}
	body := "\treturn false\n"
	switch {
	case global:
		body = "\tatomic.StoreInt32(&msgID, v)\n\treturn true\n"
	case field:
		body = "\tfor _, p := range proxies {\n\t\tatomic.StoreInt32(&p.msgID, v)\n\t}\n\treturn len(proxies) > 0\n"
	}
	pending := "\treturn 0\n"
	switch respKind {
	case "map":
		pending = "\tn := 0\n\ta.resp.Range(func(k, v interface{}) bool { n++; return true })\n\treturn n\n"
	case "array":
		pending = "\tn := 0\n\tfor i := range a.resp {\n\t\ta.resp[i].Range(func(k, v interface{}) bool { n++; return true })\n\t}\n\treturn n\n"
	}
	pendingSrc := "\n// verifPending counts the entries of the adapter's pending-reply table (0 when the tree keeps it in a\n// form this accessor does not know).\nfunc verifPending(a *AdapterProxy) int {\n" + pending + "}\n"
	src := "package tars\n\nimport \"sync/atomic\"\n\nvar _ = atomic.StoreInt32\n\n// VerifSetMsgID presets the request id counter (process-wide, or of the given proxies when the\n// tree keeps one per proxy); false when the tree has no counter this accessor knows how to reach.\nfunc VerifSetMsgID(v int32, proxies ...*ServantProxy) bool {\n" + body + "}\n"
	src += pendingSrc
	burn := "\treturn false\n"
	if genMethod {
		if field {
			burn = "\tfor _, p := range proxies {\n\t\tfor i := 0; i < n; i++ {\n\t\t\tp.genRequestID()\n\t\t}\n\t}\n\treturn len(proxies) > 0\n"
		} else {
			burn = "\tif len(proxies) == 0 {\n\t\treturn false\n\t}\n\tfor i := 0; i < n; i++ {\n\t\tproxies[0].genRequestID()\n\t}\n\treturn true\n"
		}
	}
	src += "\n// VerifBurnIDs draws n request ids through the tree's own generator, as n other requests of the\n// process would (per proxy when the tree keeps one counter per proxy).\nfunc VerifBurnIDs(n int, proxies ...*ServantProxy) bool {\n" + burn + "}\n"
	out := filepath.Join(bdir, "zz_verif_msgid.go")
	if err := os.WriteFile(out, []byte(src), 0644); err != nil {
		return "", err
	}
	return filepath.Join(dir, "zz_verif_msgid.go") + "=" + out, nil
}

// generateIDL builds tars2go from the working tree and runs it on the harness
// IDL files; returns overlay entries that add the output to the harness module.
func generateIDL(bdir string) (string, error) {
	t2g := filepath.Join(bdir, "tars2go")
	src := filepath.Join(repoDir, "tars", "tools", "tars2go")
	if out, err := runCmd(src, []string{"GOFLAGS=-mod=mod", "GOTOOLCHAIN=local"}, "go", "build", "-o", t2g, "."); err != nil {
		return "", fmt.Errorf("building tars2go from the working tree: %v\n%s", err, out)
	}
	gen := filepath.Join(bdir, "gen")
	os.RemoveAll(gen)
	os.MkdirAll(gen, 0755)
	idls, _ := filepath.Glob(filepath.Join(verifDir, "idl", "*.tars"))
	var entries []string
	// the seeded IDL family ("programs" quantifier of C01): IDL text and Go glue from idlgen
	famDir := filepath.Join(bdir, "idl")
	os.RemoveAll(famDir)
	os.MkdirAll(famDir, 0755)
	fam := idlgen.Generate(envSeed(), famSize())
	imports := "package simgen\n\nimport (\n"
	for _, m := range fam {
		f := filepath.Join(famDir, m.Name+".tars")
		os.WriteFile(f, []byte(m.IDL), 0644)
		idls = append(idls, f)
		imports += "\t_ \"verifsim/gen/" + m.Name + "\"\n"
	}
	imports += ")\n"
	impFile := filepath.Join(bdir, "zz_fam_imports.go")
	os.WriteFile(impFile, []byte(imports), 0644)
	entries = append(entries, filepath.Join(simDir(), "cmd", "simgen", "zz_fam_imports.go")+"="+impFile)
	for _, idl := range idls {
		out, err := runCmd(filepath.Dir(idl), nil, t2g, "-outdir", gen, "-module", "verifsim/gen", filepath.Base(idl))
		if err != nil {
			return "", fmt.Errorf("tars2go %s: %v\n%s", idl, err, out)
		}
	}
	err := filepath.Walk(gen, func(pth string, info os.FileInfo, err error) error {
		if err != nil || info.IsDir() || !strings.HasSuffix(pth, ".go") {
			return nil
		}
		rel, _ := filepath.Rel(gen, pth)
		entries = append(entries, filepath.Join(simDir(), "gen", rel)+"="+pth)
		return nil
	})
	if err != nil {
		return "", err
	}
	for _, m := range fam {
		g := filepath.Join(gen, m.Name, "zz_glue.go")
		if err := os.WriteFile(g, []byte(m.Glue), 0644); err != nil {
			return "", fmt.Errorf("tars2go produced no package for family module %s: %v\n%s", m.Name, err, m.IDL)
		}
		entries = append(entries, filepath.Join(simDir(), "gen", m.Name, "zz_glue.go")+"="+g)
	}
	if len(entries) == 0 {
		return "", fmt.Errorf("tars2go produced no Go files in %s", gen)
	}
	return strings.Join(entries, ","), nil
}

// famSize is the number of generated IDL modules per build (VERIF_FAMILY overrides).
func famSize() int {
	if v := os.Getenv("VERIF_FAMILY"); v != "" {
		if n, err := strconv.Atoi(v); err == nil && n >= 0 {
			return n
		}
	}
	if os.Getenv("VERIF_TIER") == "thorough" {
		return 24
	}
	return 8
}
