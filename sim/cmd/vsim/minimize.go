package main

import (
	"encoding/json"
	"fmt"
	"os"
	"os/exec"
	"path/filepath"
	"runtime"
	"strings"
	"sync"
	"time"

	"verifsim/scen"
)

// replayFile is what a violation is reported as.
type replayFile struct {
	Property   string            `json:"property"`
	Class      string            `json:"class"`
	Rule       string            `json:"rule"`
	Key        string            `json:"key"`
	Message    string            `json:"message"`
	Binary     string            `json:"binary"`
	Scenario   string            `json:"scenario"`
	Params     map[string]string `json:"params,omitempty"`
	Seed       uint64            `json:"seed"`
	Tape       []int32           `json:"tape,omitempty"`
	TapeLabels []string          `json:"tape_labels,omitempty"`
	TapeLab    []uint16          `json:"tape_lab,omitempty"`
	ExpectHash string            `json:"expect_event_hash,omitempty"`
	OrigDraws  int               `json:"original_tape_length"`
	MinDraws   int               `json:"minimised_tape_length"`
	NonZero    int               `json:"minimised_nonzero_draws"`
	MinRuns    int               `json:"minimisation_runs"`
	Case       interface{}       `json:"case,omitempty"`
	Events     []string          `json:"events,omitempty"`
	Trace      []string          `json:"trace,omitempty"`
	Dump       []string          `json:"goroutines,omitempty"`
	Crash      string            `json:"crash,omitempty"`
	RepoHead   string            `json:"repo_head,omitempty"`
	Note       string            `json:"note"`
}

func hasClass(o *scen.Out, class string) *scen.Violation {
	if o == nil {
		return nil
	}
	for i := range o.Violations {
		if o.Violations[i].Class() == class {
			return &o.Violations[i]
		}
	}
	return nil
}

type minimizer struct {
	bin     string
	job     scen.Job
	class   string
	wall    time.Duration
	runs    int
	maxRuns int
	deadline time.Time
	best    runResult
}

func (m *minimizer) exhausted() bool { return m.runs >= m.maxRuns || time.Now().After(m.deadline) }

// tryAll evaluates candidates in parallel and returns the index of the first
// (lowest index) candidate that still shows the violation class, or -1.
func (m *minimizer) tryAll(cands [][]int32) (int, runResult) {
	if len(cands) == 0 || m.exhausted() {
		return -1, runResult{}
	}
	res := make([]runResult, len(cands))
	ok := make([]bool, len(cands))
	var wg sync.WaitGroup
	sem := make(chan struct{}, runtime.NumCPU())
	for i := range cands {
		wg.Add(1)
		sem <- struct{}{}
		go func(i int) {
			defer wg.Done()
			defer func() { <-sem }()
			j := m.job
			j.Tape = cands[i]
			if j.Tape == nil {
				j.Tape = []int32{}
			}
			j.PadZero = true
			j.KeepTape = true
			j.Trace = 300
			r := execJob(m.bin, j, m.wall, 1)
			res[i] = r
			ok[i] = hasClass(r.Out, m.class) != nil
		}(i)
	}
	wg.Wait()
	m.runs += len(cands)
	for i := range cands {
		if ok[i] {
			return i, res[i]
		}
	}
	return -1, runResult{}
}

func trimZeros(t []int32) []int32 {
	n := len(t)
	for n > 0 && t[n-1] == 0 {
		n--
	}
	return t[:n]
}

func nonZero(t []int32) int {
	n := 0
	for _, v := range t {
		if v != 0 {
			n++
		}
	}
	return n
}

func (m *minimizer) accept(r runResult) []int32 {
	m.best = r
	return trimZeros(append([]int32(nil), r.Out.Tape...))
}

// minimise shrinks the tape Hypothesis-style: cut the tail, zero whole label
// classes, zero and delete blocks, lower single values; every candidate is
// re-run in a fresh process and kept only if the same violation class fires.
func (m *minimizer) minimise(start runResult) runResult {
	m.best = start
	cur := trimZeros(append([]int32(nil), start.Out.Tape...))
	// 0. the trimmed tape itself must reproduce (zero padding)
	if i, r := m.tryAll([][]int32{cur}); i == 0 {
		cur = m.accept(r)
	} else {
		return m.best // not reproducible under padding: report the original
	}
	for round := 0; round < 6 && !m.exhausted(); round++ {
		before := fmt.Sprint(len(cur), nonZero(cur))
		// 1. cut the tail
		for !m.exhausted() && len(cur) > 1 {
			var cands [][]int32
			for _, f := range []int{8, 4, 2} {
				for _, num := range []int{1, 3, 5, 7} {
					if num < f {
						n := len(cur) * num / f
						cands = append(cands, cur[:n])
					}
				}
			}
			cands = append(cands, cur[:len(cur)-1])
			sortByLen(cands)
			i, r := m.tryAll(cands)
			if i < 0 {
				break
			}
			cur = m.accept(r)
		}
		// 2. zero whole label classes
		if o := m.best.Out; o != nil && len(o.TapeLab) >= len(cur) {
			for li := range o.TapeLabels {
				if m.exhausted() {
					break
				}
				o = m.best.Out
				if len(o.TapeLab) < len(cur) || li >= len(o.TapeLabels) {
					break
				}
				c := append([]int32(nil), cur...)
				changed := false
				for k := range c {
					if int(o.TapeLab[k]) == li && c[k] != 0 {
						c[k] = 0
						changed = true
					}
				}
				if !changed {
					continue
				}
				if i, r := m.tryAll([][]int32{c}); i == 0 {
					cur = m.accept(r)
				}
			}
		}
		// 3. zero blocks, 4. delete blocks
		for _, del := range []bool{false, true} {
			for bs := len(cur) / 2; bs >= 1 && !m.exhausted(); bs /= 2 {
				pos := 0
				for pos < len(cur) && !m.exhausted() {
					var cands [][]int32
					var at []int
					for p := pos; p < len(cur) && len(cands) < runtime.NumCPU(); p += bs {
						e := p + bs
						if e > len(cur) {
							e = len(cur)
						}
						if !del && nonZero(cur[p:e]) == 0 {
							continue
						}
						c := append([]int32(nil), cur[:p]...)
						if !del {
							c = append(c, make([]int32, e-p)...)
						}
						c = append(c, cur[e:]...)
						cands = append(cands, c)
						at = append(at, p)
					}
					if len(cands) == 0 {
						break
					}
					i, r := m.tryAll(cands)
					if i >= 0 {
						cur = m.accept(r)
						pos = at[i]
						if !del {
							pos += bs
						}
					} else {
						pos = at[len(at)-1] + bs
					}
				}
				if bs == 1 {
					break
				}
			}
		}
		// 5. lower single values
		for k := 0; k < len(cur) && !m.exhausted(); k++ {
			if cur[k] <= 1 {
				continue
			}
			var cands [][]int32
			for _, nv := range []int32{1, cur[k] / 2, cur[k] - 1} {
				if nv < cur[k] && nv > 0 {
					c := append([]int32(nil), cur...)
					c[k] = nv
					cands = append(cands, c)
				}
			}
			if i, r := m.tryAll(cands); i >= 0 {
				cur = m.accept(r)
			}
		}
		if fmt.Sprint(len(cur), nonZero(cur)) == before {
			break
		}
	}
	return m.best
}

func sortByLen(c [][]int32) {
	for i := 1; i < len(c); i++ {
		for j := i; j > 0 && len(c[j]) < len(c[j-1]); j-- {
			c[j], c[j-1] = c[j-1], c[j]
		}
	}
}

func repoHead() string {
	out, err := exec.Command("git", "-C", repoDir, "rev-parse", "--short", "HEAD").Output()
	if err != nil {
		return ""
	}
	s := strings.TrimSpace(string(out))
	if st, _ := exec.Command("git", "-C", repoDir, "status", "--porcelain").Output(); len(strings.TrimSpace(string(st))) > 0 {
		s += "+dirty"
	}
	return s
}

// reportViolation minimises (when a tape is available), writes the replay
// file, re-executes it once and returns its path.
func reportViolation(p *prop, bi *buildInfo, c *classAgg) string {
	dir := filepath.Join(verifDir, "violations", p.ID)
	os.MkdirAll(dir, 0755)
	r := c.first
	rf := replayFile{Property: c.v.Property, Class: c.v.Class(), Rule: c.v.Rule, Key: c.v.Key, Message: c.v.Msg, Binary: p.Binary,
		Scenario: r.Job.Scenario, Params: r.Job.Params, Seed: r.Job.Seed, RepoHead: repoHead()}
	path := filepath.Join(dir, fmt.Sprintf("%s-seed%d.replay.json", sanitize(c.v.Rule+"-"+c.v.Key), r.Job.Seed))
	if r.Out == nil || len(r.Out.Tape) == 0 {
		rf.Crash = r.Crash + "\n" + tail(r.Stderr, 6000)
		rf.Note = "no tape was recorded (the process crashed); the run is a pure function of the seed and is replayed from it"
	} else {
		m := &minimizer{bin: bi.Binary, job: r.Job, class: c.v.Class(), wall: p.RunWall, maxRuns: 600, deadline: time.Now().Add(150 * time.Second)}
		m.job.Sample = true
		best := m.minimise(r)
		o := best.Out
		rf.OrigDraws = len(r.Out.Tape)
		rf.Tape = o.Tape
		rf.TapeLabels, rf.TapeLab = o.TapeLabels, o.TapeLab
		rf.MinDraws = len(trimZeros(o.Tape))
		rf.NonZero = nonZero(o.Tape)
		rf.MinRuns = m.runs
		rf.ExpectHash = o.Hash
		if v := hasClass(o, c.v.Class()); v != nil {
			rf.Message = v.Msg
		}
		rf.Case, rf.Events, rf.Trace, rf.Dump = o.Sample, o.Events, o.Trace, o.Dump
		rf.Note = "tape = complete effective tape of the minimised run; replay re-executes it in a fresh process and must reproduce the same violation class and event-log hash"
		// re-execute once before reporting
		j := r.Job
		j.Tape, j.PadZero, j.KeepTape = rf.Tape, true, false
		rr := execJob(bi.Binary, j, p.RunWall, 1)
		if hasClass(rr.Out, c.v.Class()) == nil {
			rf.Note += "; WARNING: the confirmation replay did not reproduce the class"
		} else if rr.Out.Hash != rf.ExpectHash {
			rf.Note += "; WARNING: the confirmation replay reproduced the class with a different event-log hash"
		}
	}
	b, _ := json.MarshalIndent(rf, "", " ")
	os.WriteFile(path, append(b, '\n'), 0644)
	return path
}

func sanitize(s string) string {
	var b strings.Builder
	for _, r := range s {
		if (r >= 'a' && r <= 'z') || (r >= 'A' && r <= 'Z') || (r >= '0' && r <= '9') || r == '-' || r == '_' {
			b.WriteRune(r)
		} else {
			b.WriteByte('_')
		}
	}
	s = b.String()
	if len(s) > 60 {
		s = s[:60]
	}
	return s
}
