package main

import (
	"bytes"
	"context"
	"encoding/json"
	"fmt"
	"os"
	"os/exec"
	"path/filepath"
	"regexp"
	"runtime"
	"strings"
	"sync"
	"sync/atomic"
	"time"

	"verifsim/scen"
)

type runResult struct {
	Job    scen.Job
	Out    *scen.Out
	Crash  string // non-empty: the process died without a result record
	InRepo bool   // the crash happened in code under test
	CrashKey string
	Stderr string
	WallMs int64
}

var jobSeq int64

// execJob runs one simulated run in a fresh process.
func execJob(bin string, job scen.Job, wall time.Duration, gomaxprocs int) runResult {
	rr := runResult{Job: job}
	js, _ := json.Marshal(job)
	ctx, cancel := context.WithTimeout(context.Background(), wall)
	defer cancel()
	cmd := exec.CommandContext(ctx, bin, "-test.run", "^TestSim$", "-test.timeout", "0")
	cmd.Dir = filepath.Dir(bin)
	env := append(os.Environ(), fmt.Sprintf("GOMAXPROCS=%d", gomaxprocs), "GOTRACEBACK=all")
	if len(js) > 100000 {
		dir := filepath.Join(filepath.Dir(bin), "jobs")
		os.MkdirAll(dir, 0755)
		f := filepath.Join(dir, fmt.Sprintf("job-%d-%d.json", os.Getpid(), atomic.AddInt64(&jobSeq, 1)))
		os.WriteFile(f, js, 0644)
		defer os.Remove(f)
		env = append(env, "VSIM_JOBFILE="+f)
	} else {
		env = append(env, "VSIM_JOB="+string(js))
	}
	cmd.Env = env
	var stdout, stderr bytes.Buffer
	cmd.Stdout = &stdout
	cmd.Stderr = &stderr
	t0 := time.Now()
	err := cmd.Run()
	rr.WallMs = time.Since(t0).Milliseconds()
	if i := bytes.LastIndex(stdout.Bytes(), []byte("@@RESULT@@ ")); i >= 0 {
		line := stdout.Bytes()[i+len("@@RESULT@@ "):]
		if j := bytes.IndexByte(line, '\n'); j >= 0 {
			line = line[:j]
		}
		var o scen.Out
		if e := json.Unmarshal(line, &o); e == nil {
			rr.Out = &o
			return rr
		}
	}
	se := stderr.String() + "\n" + stdout.String()
	if len(se) > 20000 {
		se = se[:8000] + "\n...\n" + se[len(se)-10000:]
	}
	rr.Stderr = se
	switch {
	case ctx.Err() != nil:
		rr.Crash = fmt.Sprintf("wall-clock watchdog (%v) killed the run", wall)
	case err != nil:
		rr.Crash = "process ended without a result: " + err.Error()
		rr.InRepo, rr.CrashKey = classifyCrash(se)
	default:
		rr.Crash = "process ended without a result record"
	}
	return rr
}

var frameRe = regexp.MustCompile(`(?m)^([A-Za-z0-9_./*()\-]+)\(.*\)\n\t(\S+):(\d+)`)

// classifyCrash decides whether a Go panic trace originates in TarsGo code:
// the first frame of the panicking goroutine that is neither runtime nor the
// panic machinery must belong to the repository under test.
// isStdlib: the import path of a standard-library package has no dot in its first element.
func isStdlib(fn string) bool {
	if strings.HasPrefix(fn, "verifsim/") || strings.HasPrefix(fn, "main.") {
		return false
	}
	first := fn
	if i := strings.Index(fn, "/"); i >= 0 {
		first = fn[:i]
		return !strings.Contains(first, ".")
	}
	// no slash: "pkg.Func" or "pkg.(*T).M": a single-element path is the standard library (bytes, strings, sort, ...)
	return true
}

func classifyCrash(se string) (bool, string) {
	if strings.Contains(se, "HARNESS-BUG") {
		return false, ""
	}
	i := strings.Index(se, "panic:")
	if j := strings.Index(se, "fatal error:"); j >= 0 && (i < 0 || j < i) {
		i = j
	}
	if i < 0 {
		return false, ""
	}
	rest := se[i:]
	g := strings.Index(rest, "goroutine ")
	if g < 0 {
		return false, ""
	}
	rest = rest[g:]
	if e := strings.Index(rest, "\n\n"); e > 0 {
		rest = rest[:e]
	}
	for _, m := range frameRe.FindAllStringSubmatch(rest, -1) {
		fn, file := m[1], m[2]
		if strings.HasPrefix(fn, "runtime.") || strings.HasPrefix(fn, "panic") || strings.HasPrefix(fn, "reflect.") || strings.HasPrefix(fn, "sync.") || strings.HasPrefix(fn, "internal/") {
			continue
		}
		if strings.Contains(fn, "verifsim/simrt") && !strings.Contains(fn, "GoCall") {
			// instrumentation wrapper frames (Lock/OnceDo): look further
			continue
		}
		if strings.Contains(fn, "verifsim/simrt.GoCall") {
			continue
		}
		// a standard-library function called with bad arguments panics in the library; the caller
		// is what matters (encoding/binary.bigEndian.Uint32 on a short slice, bytes, strings, ...)
		if isStdlib(fn) {
			continue
		}
		if strings.HasPrefix(fn, "github.com/TarsCloud/TarsGo/") || strings.Contains(file, "/inst/tars/") {
			fn = strings.TrimPrefix(fn, "github.com/TarsCloud/TarsGo/")
			return true, fn
		}
		return false, ""
	}
	return false, ""
}

// pool runs jobs over n workers and hands results to sink in completion order.
func runPool(bin string, jobs <-chan scen.Job, workers int, wall time.Duration, sink func(runResult)) {
	if workers <= 0 {
		workers = runtime.NumCPU()
	}
	var wg sync.WaitGroup
	var mu sync.Mutex
	for i := 0; i < workers; i++ {
		wg.Add(1)
		go func() {
			defer wg.Done()
			for j := range jobs {
				r := execJob(bin, j, wall, 1)
				mu.Lock()
				sink(r)
				mu.Unlock()
			}
		}()
	}
	wg.Wait()
}
