// Command vsim builds the instrumented harness from the repository's current
// working tree, fans simulated runs out over worker processes, evaluates the
// results, minimises violations and writes evidence.
package main

import (
	"fmt"
	"os"
	"path/filepath"
	"strconv"
	"strings"
)

var (
	verifDir = "/verif"
	repoDir  = "/repo"
)

func usage() {
	fmt.Fprintln(os.Stderr, `usage:
  vsim check <Cxx> [--tier quick|thorough] [--runs N] [--seed N] [--workers N]
  vsim replay <file>
  vsim run <scenario> --seed N [--trace N] [--param k=v]...   (debug: one run, prints the record)
  vsim selftest determinism [<Cxx>...] [--seeds N]
  vsim selftest simnet
  vsim build <Cxx>`)
	os.Exit(2)
}

func main() {
	if d := os.Getenv("VERIF_DIR"); d != "" {
		verifDir = d
	} else if exe, err := os.Executable(); err == nil {
		if d := filepath.Dir(filepath.Dir(exe)); fileExists(filepath.Join(d, "sim", "go.mod")) {
			verifDir = d
		}
	}
	if d := os.Getenv("VERIF_REPO"); d != "" {
		repoDir = d
	}
	os.Setenv("GOFLAGS", "-mod=mod")
	os.Setenv("GOPROXY", "off")
	os.Setenv("GOSUMDB", "off")
	os.Setenv("GOTOOLCHAIN", "local")
	if len(os.Args) < 2 {
		usage()
	}
	args := os.Args[2:]
	switch os.Args[1] {
	case "check":
		os.Exit(cmdCheck(args))
	case "replay":
		os.Exit(cmdReplay(args))
	case "run":
		os.Exit(cmdRun(args))
	case "selftest":
		os.Exit(cmdSelftest(args))
	case "build":
		if len(args) < 1 {
			usage()
		}
		p := lookupProp(args[0])
		if p == nil {
			fmt.Fprintln(os.Stderr, "unknown property", args[0])
			os.Exit(2)
		}
		if _, err := buildFor(p); err != nil {
			fmt.Fprintln(os.Stderr, err)
			os.Exit(2)
		}
	default:
		usage()
	}
}

func fileExists(p string) bool { _, err := os.Stat(p); return err == nil }

// flag helpers (flags may appear anywhere after the positional arguments)
type flags struct {
	pos []string
	kv  map[string][]string
}

func parseFlags(args []string) *flags {
	f := &flags{kv: map[string][]string{}}
	for i := 0; i < len(args); i++ {
		a := args[i]
		if strings.HasPrefix(a, "--") {
			k := a[2:]
			v := "true"
			if j := strings.Index(k, "="); j >= 0 {
				k, v = k[:j], k[j+1:]
			} else if i+1 < len(args) && !strings.HasPrefix(args[i+1], "--") {
				v = args[i+1]
				i++
			}
			f.kv[k] = append(f.kv[k], v)
		} else {
			f.pos = append(f.pos, a)
		}
	}
	return f
}

func (f *flags) str(k, def string) string {
	if v, ok := f.kv[k]; ok {
		return v[len(v)-1]
	}
	return def
}

func (f *flags) num(k string, def int) int {
	if v, ok := f.kv[k]; ok {
		n, err := strconv.Atoi(v[len(v)-1])
		if err == nil {
			return n
		}
	}
	return def
}

func envSeed() uint64 {
	if s := os.Getenv("VERIF_SEED"); s != "" {
		if n, err := strconv.ParseUint(s, 10, 64); err == nil {
			return n
		}
		if n, err := strconv.ParseInt(s, 10, 64); err == nil {
			return uint64(n)
		}
	}
	return 1
}
