package main

import (
	"encoding/json"
	"fmt"
	"os"
	"sort"
	"strings"
	"time"

	"verifsim/scen"
)

func propOfBinaryScenario(bin, scenario string) *prop {
	for _, p := range props {
		if p.Binary != bin && bin != "" {
			continue
		}
		for _, v := range p.Variants {
			if v.Scenario == scenario {
				return p
			}
		}
	}
	return nil
}

// cmdReplay re-executes a replay file against the current working tree.
// Exit 1 + VIOLATION line if the recorded class fires again, 0 if not,
// 2 on trouble.
func cmdReplay(args []string) int {
	f := parseFlags(args)
	if len(f.pos) < 1 {
		usage()
	}
	b, err := os.ReadFile(f.pos[0])
	if err != nil {
		fmt.Fprintln(os.Stderr, err)
		return 2
	}
	var rf replayFile
	if err := json.Unmarshal(b, &rf); err != nil {
		fmt.Fprintln(os.Stderr, "bad replay file:", err)
		return 2
	}
	p := lookupProp(rf.Property)
	if p == nil {
		p = propOfBinaryScenario(rf.Binary, rf.Scenario)
	}
	if p == nil {
		fmt.Fprintln(os.Stderr, "replay file names no known property")
		return 2
	}
	bi, err := buildFor(p)
	if err != nil {
		fmt.Fprintln(os.Stderr, "vsim: BUILD TROUBLE:", err)
		return 2
	}
	j := scen.Job{Scenario: rf.Scenario, Seed: rf.Seed, Params: rf.Params, Tape: rf.Tape, PadZero: rf.Tape != nil, Trace: f.num("trace", 200), Sample: true, Property: rf.Property}
	r := execJob(bi.Binary, j, p.RunWall, 1)
	defer cleanupBuild(bi)
	if r.Out == nil {
		if rf.Crash != "" && r.InRepo {
			fmt.Printf("VIOLATION property=%s replay=%s\n  reproduced: code under test crashed again in %s\n", rf.Property, f.pos[0], r.CrashKey)
			return 1
		}
		fmt.Fprintf(os.Stderr, "replay produced no result: %s\n%s\n", r.Crash, tail(r.Stderr, 3000))
		return 2
	}
	v := hasClass(r.Out, rf.Class)
	if v == nil {
		fmt.Printf("not reproduced: class %s did not fire (status %s, %d other violations)\n", rf.Class, r.Out.Status, len(r.Out.Violations))
		for _, o := range r.Out.Violations {
			fmt.Printf("  other: %s: %s\n", o.Class(), o.Msg)
		}
		return 0
	}
	fmt.Printf("VIOLATION property=%s replay=%s\n  reproduced: %s\n", rf.Property, f.pos[0], v.Msg)
	if rf.ExpectHash != "" {
		if r.Out.Hash == rf.ExpectHash {
			fmt.Println("  event-log hash identical to the recorded run:", r.Out.Hash)
		} else {
			fmt.Printf("  event-log hash differs from the recorded run (%s vs %s): the tree or the harness changed since\n", r.Out.Hash, rf.ExpectHash)
		}
	}
	if f.str("verbose", "") != "" {
		for _, e := range r.Out.Events {
			fmt.Println("   ", e)
		}
		for _, e := range r.Out.Trace {
			fmt.Println("   ", e)
		}
	}
	return 1
}

// cmdRun executes one run and prints its record (debugging aid).
func cmdRun(args []string) int {
	f := parseFlags(args)
	if len(f.pos) < 1 {
		usage()
	}
	scenario := f.pos[0]
	p := propOfBinaryScenario("", scenario)
	if pid := f.str("prop", ""); pid != "" {
		p = lookupProp(pid)
	}
	if p == nil {
		fmt.Fprintln(os.Stderr, "no property uses scenario", scenario)
		return 2
	}
	var bi *buildInfo
	var err error
	if f.str("nobuild", "") != "" {
		bi = &buildInfo{Binary: verifDir + "/.build/" + p.ID + "/" + p.Binary + ".test"}
	} else if bi, err = buildFor(p); err != nil {
		fmt.Fprintln(os.Stderr, "vsim: BUILD TROUBLE:", err)
		return 2
	}
	params := map[string]string{}
	for _, kv := range f.kv["param"] {
		if i := strings.Index(kv, "="); i > 0 {
			params[kv[:i]] = kv[i+1:]
		}
	}
	seed := uint64(f.num("seed", 1))
	n := f.num("n", 1)
	for i := 0; i < n; i++ {
		j := scen.Job{Scenario: scenario, Seed: seed + uint64(i), Params: params, Trace: f.num("trace", 0), Sample: true}
		t0 := time.Now()
		r := execJob(bi.Binary, j, 5*time.Minute, f.num("gomaxprocs", 1))
		if r.Out == nil {
			fmt.Printf("seed %d: no result: %s (in repo code: %v %s)\n%s\n", j.Seed, r.Crash, r.InRepo, r.CrashKey, tail(r.Stderr, 6000))
			continue
		}
		o := r.Out
		if n > 1 {
			fmt.Printf("seed %d: status=%s steps=%d sw=%d pre=%d sim=%.1fms wall=%v hash=%s viol=%d %s\n", j.Seed, o.Status, o.Steps, o.Switches, o.Preemptions, float64(o.SimNs)/1e6, time.Since(t0).Round(time.Millisecond), o.Hash, len(o.Violations), o.Inconclusive)
			for _, v := range o.Violations {
				fmt.Printf("   %s: %s\n", v.Class(), v.Msg)
			}
			continue
		}
		for _, e := range o.Trace {
			fmt.Println(e)
		}
		for _, e := range o.Events {
			fmt.Println(e)
		}
		for _, e := range o.Dump {
			fmt.Println("  G:", e)
		}
		o.Trace, o.Events, o.Dump, o.SitePairs, o.TapeLab = nil, nil, nil, nil, nil
		if f.str("tape", "") == "" {
			o.Tape = nil
		}
		b, _ := json.MarshalIndent(o, "", " ")
		fmt.Println(string(b))
		fmt.Println("wall:", time.Since(t0))
	}
	return 0
}

// cmdSelftest: determinism — every seed is run at GOMAXPROCS 1, 4 and 16 (twice
// at 1) in separate processes; event-log hashes and verdicts must agree.
func cmdSelftest(args []string) int {
	f := parseFlags(args)
	if len(f.pos) >= 1 && f.pos[0] == "simnet" {
		// fidelity of the simulated network: the same socket script on real loopback TCP and on simnet
		out, err := runCmd(simDir(), nil, goBin, "test", "-vet=off", "-count=1", "-run", "TestConformance", "-v", "./simnet")
		fmt.Print(out)
		if err != nil {
			return 1
		}
		return 0
	}
	if len(f.pos) < 1 || f.pos[0] != "determinism" {
		usage()
	}
	ids := f.pos[1:]
	if len(ids) == 0 {
		for _, p := range props {
			ids = append(ids, p.ID)
		}
	}
	nseeds := f.num("seeds", 30)
	base := uint64(f.num("seed", 7))
	bad := 0
	for _, id := range ids {
		p := lookupProp(id)
		if p == nil {
			fmt.Fprintln(os.Stderr, "unknown property", id)
			return 2
		}
		bi, err := buildFor(p)
		if err != nil {
			fmt.Fprintln(os.Stderr, "vsim: BUILD TROUBLE:", err)
			return 2
		}
		type key struct {
			seed uint64
			gmp  int
			rep  int
		}
		type res struct{ sig string }
		results := map[key]string{}
		type task struct {
			k key
			j scen.Job
		}
		var tasks []task
		for i := 0; i < nseeds; i++ {
			v := pickVariant(p, i)
			j := scen.Job{Scenario: v.Scenario, Seed: base*7919 + uint64(i), Params: v.Params, Property: p.ID}
			for _, g := range []int{1, 1, 4, 16} {
				rep := 0
				for _, t := range tasks {
					if t.k.seed == j.Seed && t.k.gmp == g {
						rep++
					}
				}
				tasks = append(tasks, task{key{j.Seed, g, rep}, j})
			}
		}
		ch := make(chan int, len(tasks))
		for i := range tasks {
			ch <- i
		}
		close(ch)
		done := make(chan struct{})
		var sigs = make([]string, len(tasks))
		workers := 16
		for w := 0; w < workers; w++ {
			go func() {
				for i := range ch {
					r := execJob(bi.Binary, tasks[i].j, p.RunWall, tasks[i].k.gmp)
					if r.Out == nil {
						sigs[i] = "NORESULT:" + r.Crash
					} else {
						var vs []string
						for _, v := range r.Out.Violations {
							vs = append(vs, v.Class())
						}
						sort.Strings(vs)
						sigs[i] = fmt.Sprintf("%s|%s|%d|%d|%s|%s", r.Out.Hash, r.Out.Status, r.Out.Steps, r.Out.Draws, strings.Join(vs, ","), r.Out.Inconclusive)
					}
				}
				done <- struct{}{}
			}()
		}
		for w := 0; w < workers; w++ {
			<-done
		}
		for i, t := range tasks {
			results[t.k] = sigs[i]
		}
		div := 0
		for i := 0; i < nseeds; i++ {
			s := base*7919 + uint64(i)
			ref := results[key{s, 1, 0}]
			for _, k := range []key{{s, 1, 1}, {s, 4, 0}, {s, 16, 0}} {
				if results[k] != ref {
					div++
					fmt.Printf("DIVERGENCE %s seed %d: GOMAXPROCS=1 -> %s ; GOMAXPROCS=%d rep %d -> %s\n", id, s, ref, k.gmp, k.rep, results[k])
					break
				}
			}
		}
		fmt.Printf("selftest determinism %s: %d seeds x 4 processes (GOMAXPROCS 1,1,4,16): %d divergent\n", id, nseeds, div)
		bad += div
		cleanupBuild(bi)
	}
	if bad > 0 {
		return 1
	}
	return 0
}
