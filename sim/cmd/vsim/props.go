package main

import "time"

// variant is one scenario configuration a check cycles through.
type variant struct {
	Scenario string
	Params   map[string]string
	Weight   int
}

type prop struct {
	ID        string
	Binary    string // cmd/<Binary>
	Variants  []variant
	Quick     int // runs in the quick tier
	Thorough  int // runs in the thorough tier
	RunWall   time.Duration
	NeedsGen  bool // needs tars2go output from the working tree
	Real      []string
	Stub      []string
	Rule      string
	Assume    []string
}

var commonStub = []string{
	"Go scheduler's choice of the next goroutine -> seeded one-at-a-time scheduler (simrt)",
	"wall clock / timers -> testing/synctest fake clock",
}

var commonAssume = []string{
	"sampling, not enumeration: a clean batch bounds nothing",
	"code outside the instrumented packages (standard library, codec, generated code) is atomic to the scheduler",
	"instrumenter (syntactic rewrites) and simrt preserve the semantics of the instrumented code",
}

var netStub = "kernel TCP/UDP -> verifsim/simnet (in-memory streams with tape-decided fragmentation, delay, back-pressure, close, reset, refusal)"

var fullStackReal = []string{
	"tars: Communicator, ServantProxy, AdapterProxy, endpointManager, Protocol (instrumented from the working tree)",
	"tars/transport: TarsClient, TarsServer, tcpHandler, udpHandler (instrumented)",
	"tars/util/rtimer time wheels (instrumented, yields off), tars/protocol codec and packet structs (real, atomic to the scheduler)",
}

var props = []*prop{
	{
		ID: "C01", Binary: "simgen", NeedsGen: true, Quick: 3000, Thorough: 80000, RunWall: 180 * time.Second,
		Variants: []variant{{Scenario: "c01", Weight: 4}, {Scenario: "c01f", Weight: 2}, {Scenario: "c01", Params: map[string]string{"stalls": "off", "shortto": "on"}, Weight: 1}},
		Real:     append([]string{"tars2go built from the working tree; proxy, dispatcher and struct codecs it generates from /verif/idl/VerifAll.tars (real, atomic to the scheduler)", "tars filters (legacy, pre/post, middleware), tars.Protocol.Invoke, current (real)"}, fullStackReal...),
		Stub:     append([]string{netStub + " (fault-free: fragmentation and delay only)", "servant implementation -> recording implementation driven by a per-call plan"}, commonStub...),
		Rule:     "one case = one simulated run: 1-8 callers x 1-6 calls sharing one generated proxy against a real server (pool 0/2/5) hosting the generated dispatcher; every call draws a method (void, scalars, string, byte vector, nested vectors, maps, struct with every member kind, enum, fixed array; two-way and one-way), boundary-dense argument/return/out values (min/max, NaN payloads, signed zero, empty and nil containers, strings and byte vectors across the 255/256, 4096 and 65536 boundaries), context/status maps (absent, empty, populated), and a servant outcome (values, response context/status, *tars.Error or plain error); client and server filter families (none, legacy single, pre+post, middleware chain) drawn independently, in half of the middleware runs one more client middleware is registered after a drawn number of calls; every third run instead drives, through reflection, one module of a seeded family of IDL programs (8 per build, 24 in the thorough tier; VERIF_SEED selects the family: random structs with required/optional/defaulted members of scalar, string, vector, map, struct and enum types at sparse tags, interfaces with 2-5 methods, in/out parameters, void and typed returns) generated, compiled and linked at check time; distinct = distinct (event-log hash, switch trace hash); non-trivial = at least one preemption",
	},
	{
		ID: "C07", Binary: "simcore", Quick: 3000, Thorough: 60000, RunWall: 180 * time.Second,
		Variants: []variant{{Scenario: "c07", Weight: 4}, {Scenario: "c07w", Weight: 1}},
		Real:     []string{"tars/transport: TarsServer + tcpHandler receive loop and TarsClient receive loop (instrumented)", "tars/protocol.TarsRequest / TarsProtocol.ParsePackage and SetMaxPackageLength (real)", "tars/util/gpool (server worker pool in some runs)"},
		Stub:     append([]string{netStub, "protocol layer above the framing -> recording ServerProtocol.Invoke / ClientProtocol.Recv", "peers -> scripted raw writers"}, commonStub...),
		Rule:     "one case = one simulated run: 1-3 connections into a real TarsServer and 1-2 real TarsClients, each fed a tape-drawn sequence of 1-12 frames (lengths 4, 5, small, around 4096 and 8192, max-1, max) optionally followed by an illegal length prefix (0-3, max+1, huge) and further frames; the stream is written in tape-drawn chunks (single bytes, cuts inside the prefix, large chunks, pauses) and read in tape-drawn fragments; maximum package length 64/1000/4096/10MiB, server pool 0/1/3; in the echoing-server variant the client reads slowly so that the server's write time-out strikes inside a response; pool queue capacity 1-1000; every fifth run is the client-sender variant (2-11 packets of 8 B-150 KB through a real TarsClient to a peer that breaks 0-3 connections after drawn byte counts); distinct = distinct (event-log hash, switch trace hash); non-trivial = at least one preemption, stall or fired fault",
	},
	{
		ID: "C08", Binary: "simcore", Quick: 6000, Thorough: 120000, RunWall: 120 * time.Second,
		Variants: []variant{{Scenario: "c08", Weight: 1}},
		Real:     fullStackReal,
		Stub:     append([]string{netStub, "server -> scripted peer speaking the wire protocol through an independent reference codec (verifsim/refcodec)"}, commonStub...),
		Rule:     "one case = one simulated run: 1-8 concurrent callers x 1-5 calls with unique payloads through 1-3 proxy objects for one servant (direct endpoint, or in a quarter of the runs a registry that delists an endpoint under waiting callers), optionally with a slow push callback; the scripted server answers each request by a tape-drawn plan (immediate, delayed, duplicated, stray unused id first, id-0 push frame first, close notification first, split across a pause, around the deadline, late, replay after completion), reads fragmented and deliveries delayed per tape, id counter preset near MaxInt32/-1 in some runs; distinct = distinct (event-log hash, switch trace hash); non-trivial = at least one preemption, stall or fired fault",
	},
	{
		ID: "C09", Binary: "simcore", Quick: 6000, Thorough: 120000, RunWall: 120 * time.Second,
		Variants: []variant{{Scenario: "c09", Params: map[string]string{"faults": "on"}, Weight: 3}, {Scenario: "c09", Params: map[string]string{"faults": "off", "stalls": "off"}, Weight: 1}},
		Real:     fullStackReal,
		Stub:     append([]string{netStub, "server -> scripted peer (reference codec) with tape-drawn misbehaviour"}, commonStub...),
		Rule:     "one case = one simulated run: 1-6 concurrent callers x 1-4 calls through 1-3 proxy objects for one servant (a quarter of the runs with a push callback) with tape-drawn proxy/per-call/context deadlines, dial/write/read time-outs and send-queue length; the peer's behaviour is drawn per connection (close on accept, never read, silent, garbage) and per request (immediate, never, around the deadline, late, close after request, half a response then close, reset, garbage, other id first), plus address faults (refused, black-holed, refuse-then-heal, crash and restart); a fault-free variant (every call must succeed) runs separately; distinct = distinct (event-log hash, switch trace hash); non-trivial = at least one preemption, stall or fired fault",
	},
	{
		ID: "C10", Binary: "simgen", NeedsGen: true, Quick: 4000, Thorough: 100000, RunWall: 180 * time.Second,
		Variants: []variant{{Scenario: "c10", Params: map[string]string{"proto": "tcp"}, Weight: 3}, {Scenario: "c10", Params: map[string]string{"proto": "udp"}, Weight: 1}},
		Real:     []string{"tars.Protocol.Invoke / InvokeTimeout / rsp2Byte (instrumented)", "tars/transport: TarsServer.invoke (handle time-out), tcpHandler, udpHandler (instrumented)", "tars/util/gpool", "tars2go built from the working tree and the dispatcher it generates from /verif/idl/VerifAll.tars (real, atomic to the scheduler)", "tars/protocol codec, tup (real)"},
		Stub:     append([]string{netStub, "clients -> scripted raw clients building TARS-, TUP- and JSON-versioned requests with the independent reference codec"}, commonStub...),
		Rule:     "one case = one simulated run: real TarsServer (TCP or UDP) with the generated dispatcher, pool 0/1/2/4, queue capacity 2/8/1000, handle time-out 0/100ms/700ms, server read time-out 0/100ms/1s, idle time-out 0.4s/2s/600s; 1-4 raw clients (a third half-close after their last request) pipelining 1-10 requests each: TARS/TUP/JSON version, two-way/one-way, addInts/echoString/fail(code,msg)/slow(ms)/tars_ping/unknown function, arbitrary (also negative) ids, time-outs 0/5-45ms/3s/60s, optionally behind a pool saturated for 600ms; UDP with datagram loss and duplication; distinct = distinct (event-log hash, switch trace hash); non-trivial = at least one preemption or fired fault",
	},
	{
		ID: "C11", Binary: "simcore", Quick: 20000, Thorough: 200000, RunWall: 180 * time.Second,
		Variants: []variant{{Scenario: "c11", Weight: 3}, {Scenario: "c11r", Weight: 1}},
		Real:     fullStackReal,
		Stub:     append([]string{netStub, "server -> scripted peer (reference codec) that answers every request it reads and closes connections by plan"}, commonStub...),
		Rule:     "one case = one simulated run: 1-2 callers x 2-8 sequential calls through one real proxy with tape-drawn gaps (0ms-2.5s, straddling the sender's 1s poll); per accepted connection the scripted server keeps it, closes it after response k, closes it when idle for 50ms-2s, or sends the reconnect notification and closes after a drawn gap; one answer in six takes 1.2-2.5s; client idle time-out default/1s/2s; crash+restart (with a drawn down time) in some runs; every fourth run uses a real TarsServer as the peer instead (idle time-out 0.7-600s closing idle connections, graceful Shutdown with reconnect notification and restart 0-2 times); distinct = distinct (event-log hash, switch trace hash); non-trivial = at least one preemption or fired fault",
	},
	{
		ID: "C12", Binary: "simcore", Quick: 5000, Thorough: 100000, RunWall: 180 * time.Second,
		Variants: []variant{{Scenario: "c12", Params: map[string]string{"pool": "0"}, Weight: 1}, {Scenario: "c12", Params: map[string]string{"pool": "n"}, Weight: 1}},
		Real:     []string{"tars/transport: TarsServer.Shutdown, tcpHandler accept loop / receive loops / CloseIdles (instrumented)", "tars.Protocol.Invoke and GetCloseMsg (instrumented)", "tars/util/gpool worker pool (instrumented)"},
		Stub:     append([]string{netStub, "clients -> scripted raw clients (reference codec) that pipeline requests and read until the server closes", "servant -> sleeping echo dispatcher"}, commonStub...),
		Rule:     "one case = one simulated run: real TarsServer with pool 0/1/2/4 and queue capacity 1/3/1000, 1-4 raw clients pipelining 0-7 requests (handler durations 0-2500ms, some one-way, some sent late into the drain window; one client may reset its connection), handle time-out 0/300ms/1s, server read/idle time-outs drawn, Shutdown at a drawn instant with a drawn context (0.7-60s), in a quarter of the runs followed by a second Shutdown call; checked separately for pool 0 and pool N; distinct = distinct (event-log hash, switch trace hash); non-trivial = at least one preemption or fired fault",
	},
	{
		ID: "C13", Binary: "simcore", Quick: 8000, Thorough: 200000, RunWall: 60 * time.Second,
		Variants: []variant{{Scenario: "c13", Weight: 24}, {Scenario: "c13m", Weight: 1}},
		Real:     []string{"tars/selector (BuildStaticWeightList), roundrobin, random, modhash, consistenthash (instrumented from the working tree)"},
		Stub:     commonStub,
		Rule:     "one case = one simulated run: one strategy (round-robin, random, mod-hash, consistent-hash; weighted or not) over a universe of 2-6 hosts with tape-drawn weights (positive, zero, negative) and weight types; 1-3 selecting goroutines and 1-2 updating goroutines (Refresh with a slice the caller recycles afterwards, Add, Remove - a third of them with a newer descriptor of the same host) interleaved at statement granularity, the invoke/return history checked with porcupine against the member-set model; then a sequential phase checking strict rotation / weighted cycle composition of round-robin on a set reached through a drawn history; every 25th run is the manager-level variant: 100-300 simulated seconds of calls through a real endpointManager while the scripted registry's list changes (endpoints leave and join, refresh every 0.7-2s) and, in a third of those runs, servers also fail: calls only go to recently listed endpoints, and N consecutive calls over an unchanged N-endpoint rotation hit each endpoint once; distinct = distinct (event-log hash, switch trace hash); non-trivial = at least one preemption",
	},
	{
		ID: "C14", Binary: "simcore", Quick: 4000, Thorough: 100000, RunWall: 60 * time.Second,
		Variants: []variant{{Scenario: "c14", Weight: 12}, {Scenario: "c14c", Weight: 1}},
		Real:     []string{"tars/selector/consistenthash, modhash (instrumented from the working tree)", "cluster variant (1 run in 13): the full client stack with endpointManager failover, as in C15"},
		Stub:     append([]string{"reference: independently built Ketama ring / mod-hash slot model in the harness"}, commonStub...),
		Rule:     "one case = one simulated run: two selector instances, one driven by a tape-drawn history of 1-25 add/remove/refresh events, the other reaching the same set by another route; ~190 lookups (ring points and their +-1 neighbours, 0, MaxUint32, random codes) compared between the instances and with an independently built ring; then removal and addition of one endpoint (minimal disruption); every 13th run is the cluster variant: 100-300 simulated seconds of calls carrying mod-hash / consistent-hash codes through a registry-discovered proxy while 2-5 scripted servers fail and recover and the registry flips weight type and weights, each call compared with the (weighted) reference applied to the rotation and registry answers in effect at selection time; distinct = distinct (event-log hash, switch trace hash); non-trivial = at least one preemption or fault phase (the single-goroutine selector-level runs count as trivial)",
	},
	{
		ID: "C15", Binary: "simcore", Quick: 1500, Thorough: 20000, RunWall: 300 * time.Second,
		Variants: []variant{{Scenario: "c15", Weight: 1}},
		Real:     append([]string{"tars endpointManager, globalManager status check / refresh loops, AdapterProxy health accounting (instrumented)"}, fullStackReal...),
		Stub:     append([]string{netStub, "registry -> scripted registry.Registrar through the existing tars.Registrar option", "servers -> 2-5 scripted peers with per-server timelines of healthy / silent / refusing phases"}, commonStub...),
		Rule:     "one case = one simulated run of 100-300 simulated seconds: a registry-discovered servant with 2-5 scripted servers, each with 0-3 fault phases (silent, refusing, flaky or answering after the caller's time-out, for 2-100s, aligned around the 5-failure, 5s, 30s and 60s thresholds), a client calling every 50-1900ms with a 200-600ms time-out, status check every 0.5-2s; in some runs the registry's answer changes on the status-check grid, calls are bounded by the caller's cancellation, a third of the calls is hash-routed, or keep-alive pings are on; the rotation is sampled 4x per simulated second through an overlay accessor; distinct = distinct (event-log hash, switch trace hash); non-trivial = at least one preemption or fault phase",
	},
	{
		ID: "C19", Binary: "simcore", Quick: 6000, Thorough: 120000, RunWall: 60 * time.Second,
		Variants: []variant{{Scenario: "c19", Weight: 4}, {Scenario: "c19s", Weight: 2}},
		Real:     []string{"tars/util/gpool (instrumented from the working tree)", "every fifth run: tars/transport TarsServer + tcpHandler handing requests to the pool (MaxInvoke 1-4, queue capacity 1-1000)"},
		Stub:     commonStub,
		Rule:     "one case = one simulated run: tape-drawn pool size 1-4, queue capacity 0-4, 1-3 submitters, 1-12 jobs with drawn durations, release none/idle/busy, under a tape-drawn schedule; every third run instead drives the pool through a real TarsServer (MaxInvoke 1-4, small queue, 1-3 raw clients sending bursts of requests with drawn handler durations over TCP or UDP, a third of the runs with a graceful Shutdown while requests are queued or datagrams keep arriving) and checks the bound and exactly-once on the invocations of every request the server read; distinct = distinct (event-log hash, context-switch trace hash); non-trivial = at least one preemption, stall or fired fault",
	},
	{
		ID: "C20", Binary: "simcore", Quick: 5000, Thorough: 100000, RunWall: 60 * time.Second,
		Variants: []variant{{Scenario: "c20", Weight: 1}},
		Real:     []string{"tars/util/rogger (instrumented; queue and flusher recreated inside the bubble by an overlay shim)", "tars.CheckPanic (panic-exit variant)"},
		Stub:     append([]string{"LogWriter -> recording writer", "os.Exit -> simrt.Exit (records and ends the run)"}, commonStub...),
		Rule:     "one case = one simulated run: 1-4 logging goroutines x 1-6 entries through WriteLog/Debugf/Info/Trace/DyeingInfof, 1-2 writers (a logger may be given another writer after a drawn number of calls; in some runs a size-rolling file writer whose files are read back), queue capacity 1-10000, flush (or panic-triggered exit, with one or two panicking goroutines) after a drawn number of returned log calls, under a tape-drawn schedule incl. the case order of every select; distinct = distinct (event-log hash, switch trace hash); non-trivial = at least one preemption or fired fault",
	},
}

func lookupProp(id string) *prop {
	for _, p := range props {
		if p.ID == id {
			return p
		}
	}
	return nil
}
