package main

import (
	"bufio"
	"encoding/json"
	"fmt"
	"os"
	"path/filepath"
	"runtime"
	"sort"
	"strings"
	"time"

	"verifsim/scen"
)

type finding struct {
	Status   string `json:"status"` // known | fixed
	Property string `json:"property"`
	Rule     string `json:"rule"`
	Key      string `json:"key"`
	What     string `json:"what"`
	Commit   string `json:"commit,omitempty"`
}

// loadFindings reads /verif/KNOWN_FINDINGS.txt. Lines:
//
//	known: property=C12 rule=<rule> key=<key> :: <what fails>
//	fixed: property=C20 <commit> <what failed>
//
// Only "known:" lines suppress anything, and only the exact class
// (property, rule, key) they name. The file is never written at run time.
func loadFindings() []finding {
	var fs []finding
	f, err := os.Open(filepath.Join(verifDir, "KNOWN_FINDINGS.txt"))
	if err != nil {
		return nil
	}
	defer f.Close()
	sc := bufio.NewScanner(f)
	sc.Buffer(make([]byte, 1<<20), 1<<20)
	for sc.Scan() {
		line := strings.TrimSpace(sc.Text())
		if !strings.HasPrefix(line, "known:") {
			continue
		}
		line = strings.TrimSpace(line[len("known:"):])
		what := ""
		if i := strings.Index(line, " :: "); i >= 0 {
			what = strings.TrimSpace(line[i+4:])
			line = line[:i]
		}
		x := finding{Status: "known", What: what}
		for _, tok := range strings.Fields(line) {
			kv := strings.SplitN(tok, "=", 2)
			if len(kv) != 2 {
				continue
			}
			switch kv[0] {
			case "property":
				x.Property = kv[1]
			case "rule":
				x.Rule = kv[1]
			case "key":
				x.Key = kv[1]
			}
		}
		if x.Property != "" && x.Rule != "" {
			fs = append(fs, x)
		}
	}
	return fs
}

func knownFinding(fs []finding, v scen.Violation) *finding {
	for i := range fs {
		f := &fs[i]
		if f.Status == "known" && f.Property == v.Property && f.Rule == v.Rule && f.Key == v.Key {
			return f
		}
	}
	return nil
}

type classAgg struct {
	v     scen.Violation
	count int
	first runResult // run with the shortest tape seen
}

type agg struct {
	runs, ok, incon, crashes, harnessBugs int
	statusCount                            map[string]int
	stats                                  map[string]int
	steps, switches, preempt, stalls, draws int64
	simNs                                  int64
	cases                                  map[string]bool
	nontrivial                             map[string]bool
	pairs                                  map[uint32]bool
	samples                                []interface{}
	classes                                map[string]*classAgg
	inconNotes                             map[string]int
	crashNotes                             []string
	wallMs                                 int64
}

func newAgg() *agg {
	return &agg{statusCount: map[string]int{}, stats: map[string]int{}, cases: map[string]bool{}, nontrivial: map[string]bool{},
		pairs: map[uint32]bool{}, classes: map[string]*classAgg{}, inconNotes: map[string]int{}}
}

func (a *agg) add(p *prop, r runResult) {
	a.runs++
	a.wallMs += r.WallMs
	if r.Out == nil {
		if r.InRepo {
			v := scen.Violation{Property: p.ID, Rule: "crash", Key: r.CrashKey, Msg: "code under test crashed the process: " + firstLines(r.Stderr, 12)}
			a.addViolation(v, r)
			a.crashes++
			return
		}
		a.harnessBugs++
		if len(a.crashNotes) < 5 {
			a.crashNotes = append(a.crashNotes, fmt.Sprintf("seed %d: %s\n%s", r.Job.Seed, r.Crash, tail(r.Stderr, 3000)))
		}
		return
	}
	o := r.Out
	a.statusCount[o.Status]++
	for k, v := range o.Stats {
		a.stats[k] += v
	}
	a.steps += int64(o.Steps)
	a.switches += int64(o.Switches)
	a.preempt += int64(o.Preemptions)
	a.stalls += int64(o.Stalls)
	a.draws += int64(o.Draws)
	a.simNs += o.SimNs
	a.cases[o.CaseHash] = true
	if o.Nontrivial {
		a.nontrivial[o.CaseHash] = true
	}
	for _, sp := range o.SitePairs {
		if len(a.pairs) < 200000 {
			a.pairs[sp] = true
		}
	}
	if o.Sample != nil && len(a.samples) < 3 {
		a.samples = append(a.samples, map[string]interface{}{"seed": o.Seed, "scenario": o.Scenario, "params": r.Job.Params, "case": o.Sample,
			"steps": o.Steps, "context_switches": o.Switches, "preemptions": o.Preemptions, "sim_time_ms": float64(o.SimNs) / 1e6, "status": o.Status, "stats": o.Stats})
	}
	if o.Inconclusive != "" {
		a.incon++
		a.inconNotes[o.Inconclusive]++
	} else if len(o.Violations) == 0 {
		if o.Status == "steplimit" {
			a.incon++
			a.inconNotes["step limit reached"]++
		} else {
			a.ok++
		}
	}
	for _, v := range o.Violations {
		a.addViolation(v, r)
	}
}

func (a *agg) addViolation(v scen.Violation, r runResult) {
	c := a.classes[v.Class()]
	if c == nil {
		c = &classAgg{v: v, first: r}
		a.classes[v.Class()] = c
	}
	c.count++
	if r.Out != nil && c.first.Out != nil && len(r.Out.Tape) > 0 && len(r.Out.Tape) < len(c.first.Out.Tape) {
		c.first = r
		c.v = v
	}
}

func firstLines(s string, n int) string {
	i := strings.Index(s, "panic:")
	if j := strings.Index(s, "fatal error:"); j >= 0 && (i < 0 || j < i) {
		i = j
	}
	if i > 0 {
		s = s[i:]
	}
	ls := strings.Split(s, "\n")
	if len(ls) > n {
		ls = ls[:n]
	}
	return strings.Join(ls, " | ")
}

func tail(s string, n int) string {
	if len(s) > n {
		return s[len(s)-n:]
	}
	return s
}

func pickVariant(p *prop, i int) variant {
	tot := 0
	for _, v := range p.Variants {
		w := v.Weight
		if w <= 0 {
			w = 1
		}
		tot += w
	}
	k := i % tot
	for _, v := range p.Variants {
		w := v.Weight
		if w <= 0 {
			w = 1
		}
		if k < w {
			return v
		}
		k -= w
	}
	return p.Variants[0]
}

func cmdCheck(args []string) int {
	f := parseFlags(args)
	if len(f.pos) < 1 {
		usage()
	}
	p := lookupProp(f.pos[0])
	if p == nil {
		fmt.Fprintln(os.Stderr, "vsim: no check for property", f.pos[0])
		return 2
	}
	tier := f.str("tier", os.Getenv("VERIF_TIER"))
	if tier != "thorough" {
		tier = "quick"
	}
	seed := envSeed()
	if _, ok := f.kv["seed"]; ok {
		seed = uint64(f.num("seed", 1))
	}
	os.Setenv("VERIF_TIER", tier)
	os.Setenv("VERIF_SEED", fmt.Sprint(seed))
	nruns := p.Quick
	if tier == "thorough" {
		nruns = p.Thorough
	}
	nruns = f.num("runs", nruns)
	workers := f.num("workers", runtime.NumCPU())
	t0 := time.Now()
	fmt.Printf("vsim: check %s tier=%s seed=%d runs=%d workers=%d repo=%s\n", p.ID, tier, seed, nruns, workers, repoDir)
	bi, err := buildFor(p)
	if err != nil {
		fmt.Fprintln(os.Stderr, "vsim: BUILD TROUBLE (not a violation):", err)
		return 2
	}
	buildS := time.Since(t0).Seconds()
	fmt.Printf("vsim: built %s (instrumentation mode %s) in %.1fs\n", bi.Binary, bi.Mode, buildS)

	a := newAgg()
	jobs := make(chan scen.Job, 64)
	budget := time.Duration(f.num("budget-s", 0)) * time.Second
	go func() {
		defer close(jobs)
		for i := 0; i < nruns; i++ {
			if budget > 0 && time.Since(t0) > budget {
				return
			}
			v := pickVariant(p, i)
			jobs <- scen.Job{Scenario: v.Scenario, Seed: seed*1_000_003 + uint64(i), Params: v.Params, Sample: i < 3, Property: p.ID}
		}
	}()
	lastPrint := time.Now()
	runPool(bi.Binary, jobs, workers, p.RunWall, func(r runResult) {
		a.add(p, r)
		if time.Since(lastPrint) > 20*time.Second {
			lastPrint = time.Now()
			fmt.Printf("vsim: %d/%d runs, %d violation classes, %d inconclusive\n", a.runs, nruns, len(a.classes), a.incon)
		}
	})
	runS := time.Since(t0).Seconds() - buildS

	// judge
	fs := loadFindings()
	exit := 0
	var classKeys []string
	for k := range a.classes {
		classKeys = append(classKeys, k)
	}
	sort.Strings(classKeys)
	var vioOut []map[string]interface{}
	var knownOut []map[string]interface{}
	newClasses := 0
	for _, k := range classKeys {
		c := a.classes[k]
		if kf := knownFinding(fs, c.v); kf != nil {
			fmt.Printf("KNOWN-FINDING: property=%s %s (rule %s, key %s; seen in %d runs of this check)\n", c.v.Property, kf.What, c.v.Rule, c.v.Key, c.count)
			knownOut = append(knownOut, map[string]interface{}{"class": k, "runs": c.count, "what": kf.What})
			continue
		}
		newClasses++
		if newClasses > 4 {
			fmt.Printf("vsim: further violation class %s (%d runs): %s\n", k, c.count, c.v.Msg)
			continue
		}
		path := reportViolation(p, bi, c)
		fmt.Printf("VIOLATION property=%s replay=%s\n", c.v.Property, path)
		fmt.Printf("  rule=%s key=%s runs=%d: %s\n", c.v.Rule, c.v.Key, c.count, c.v.Msg)
		vioOut = append(vioOut, map[string]interface{}{"class": k, "runs": c.count, "msg": c.v.Msg, "replay": path})
		exit = 1
	}
	if a.harnessBugs > 0 {
		fmt.Fprintf(os.Stderr, "vsim: %d runs ended without a result (harness trouble):\n", a.harnessBugs)
		for _, n := range a.crashNotes {
			fmt.Fprintln(os.Stderr, n)
		}
	}
	judged := a.ok + len(a.classes)
	if exit == 0 && (a.harnessBugs*20 > a.runs || judged == 0 || a.incon*4 > a.runs) {
		fmt.Fprintf(os.Stderr, "vsim: too few conclusive runs (%d ok, %d inconclusive, %d harness failures of %d): %v\n", a.ok, a.incon, a.harnessBugs, a.runs, a.inconNotes)
		exit = 2
	}
	writeEvidence(p, tier, seed, a, bi, time.Since(t0).Seconds(), runS, vioOut, knownOut, exit)
	cleanupBuild(bi)
	fmt.Printf("vsim: %s %s: %d runs (%d ok, %d inconclusive, %d harness failures), %d distinct cases (%d non-trivial), %.0f runs/h, sim time %.1fs, exit %d\n",
		p.ID, tier, a.runs, a.ok, a.incon, a.harnessBugs, len(a.cases), len(a.nontrivial), float64(a.runs)/runS*3600, float64(a.simNs)/1e9, exit)
	return exit
}

func cleanupBuild(bi *buildInfo) {
	d := filepath.Dir(bi.Binary)
	ms, _ := filepath.Glob(filepath.Join(d, "panic.*"))
	for _, m := range ms {
		os.Remove(m)
	}
	os.RemoveAll(filepath.Join(d, "jobs"))
}

func writeEvidence(p *prop, tier string, seed uint64, a *agg, bi *buildInfo, wall, runS float64, vio, known []map[string]interface{}, exit int) {
	faults := map[string]int{}
	probes := map[string]int{}
	other := map[string]int{}
	for k, v := range a.stats {
		switch {
		case strings.HasPrefix(k, "fault."):
			faults[k[6:]] = v
		case strings.HasPrefix(k, "probe."):
			probes[k[6:]] = v
		default:
			other[k] = v
		}
	}
	var zero []string
	for k, v := range probes {
		if v == 0 {
			zero = append(zero, k)
		}
	}
	sort.Strings(zero)
	samples := a.samples
	if len(samples) == 0 {
		samples = []interface{}{"no completed run produced a sample"}
	}
	cov := map[string]interface{}{
		"evaluations":         a.runs,
		"distinct_nontrivial": len(a.nontrivial),
		"distinct_cases":      len(a.cases),
		"rule":                p.Rule,
		"samples":             samples,
		"runs_ok":             a.ok,
		"runs_inconclusive":   a.incon,
		"inconclusive_reasons": a.inconNotes,
		"runs_without_result": a.harnessBugs,
		"run_status":          a.statusCount,
		"runs_per_hour":       int(float64(a.runs) / runS * 3600),
		"seeds":               fmt.Sprintf("%d .. %d (VERIF_SEED*1000003 + run index)", seed*1_000_003, seed*1_000_003+uint64(a.runs)-1),
		"simulated_time_s":    float64(a.simNs) / 1e9,
		"scheduling_steps":    a.steps,
		"context_switches":    a.switches,
		"preemptions":         a.preempt,
		"stalls_injected":     a.stalls,
		"tape_draws":          a.draws,
		"distinct_context_switch_site_pairs": len(a.pairs),
		"faults_fired":        faults,
		"probes_hit":          probes,
		"probes_never_hit":    append([]string{}, zero...),
		"counters":            other,
		"instrumentation_mode": bi.Mode,
		"components_real":     p.Real,
		"components_stubbed":  p.Stub,
		"violation_classes":   vio,
		"known_findings_seen": known,
		"exit_status":         exit,
		"workers":             runtime.NumCPU(),
	}
	ev := map[string]interface{}{
		"property_id": p.ID,
		"tier":        tier,
		"seed":        seed,
		"level":       "exploration",
		"coverage":    cov,
		"assumptions": append(append([]string{}, commonAssume...), p.Assume...),
		"wall_s":      wall,
		"violations":  len(vio),
	}
	b, _ := json.MarshalIndent(ev, "", " ")
	if repoDir != "/repo" {
		// a scratch copy (VERIF_REPO: sensitivity mutants, seeded changes): the evidence
		// files under /verif/evidence describe /repo only
		os.WriteFile(filepath.Join(verifDir, ".build", p.ID, "evidence.scratch.json"), append(b, '\n'), 0644)
		return
	}
	os.MkdirAll(filepath.Join(verifDir, "evidence"), 0755)
	os.WriteFile(filepath.Join(verifDir, "evidence", p.ID+".json"), append(b, '\n'), 0644)
}
