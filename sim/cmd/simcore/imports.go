// Package simcore is the run binary of the scenarios that need no generated code.
package simcore

import (
	_ "verifsim/scen/c15"
	_ "verifsim/scen/sel"
	_ "verifsim/scen/c11"
	_ "verifsim/scen/c12"
	_ "verifsim/scen/c07"
	_ "verifsim/scen/c09"
	_ "verifsim/scen/c08"
	_ "verifsim/scen/c19"
	_ "verifsim/scen/c20"
)
