// Package simgen is the run binary of the scenarios that use tars2go output.
package simgen

import (
	_ "verifsim/scen/c01"
	_ "verifsim/scen/c10"
)
