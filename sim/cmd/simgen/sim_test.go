package simgen

import (
	"encoding/json"
	"fmt"
	"os"
	"testing"
	"testing/synctest"
	"time"

	"verifsim/scen"
	"verifsim/simrt"
	"verifsim/tape"
)

// TestSim is the entry point of one simulated run (one OS process per run).
func TestSim(t *testing.T) {
	os.Args = os.Args[:1] // tars.initConfig parses the command line
	var job scen.Job
	src := os.Getenv("VSIM_JOB")
	if f := os.Getenv("VSIM_JOBFILE"); f != "" {
		b, err := os.ReadFile(f)
		if err != nil {
			fmt.Fprintln(os.Stderr, "HARNESS-BUG job file:", err)
			os.Exit(2)
		}
		src = string(b)
	}
	if err := json.Unmarshal([]byte(src), &job); err != nil {
		fmt.Fprintln(os.Stderr, "HARNESS-BUG bad job:", err)
		os.Exit(2)
	}
	sc := scen.Lookup(job.Scenario)
	if sc == nil {
		fmt.Fprintf(os.Stderr, "HARNESS-BUG unknown scenario %q (have %v)\n", job.Scenario, scen.Names())
		os.Exit(2)
	}
	ctx := scen.NewCtx(&job)
	sc.Prepare(ctx)
	var tp *tape.Tape
	if job.Tape != nil {
		tp = tape.NewReplay(job.Tape, job.Seed, job.PadZero)
	} else {
		tp = tape.New(job.Seed)
	}
	synctest.Test(t, func(t *testing.T) {
		// shift the bubble clock so that time-seeded generators differ per run
		time.Sleep(time.Duration(tp.Draw(1<<30, "cfg.clock")) * time.Nanosecond)
		cfg := scen.SchedConfig(tp, sc, &job)
		simrt.OnExit = func(r simrt.Result) {
			sc.Check(ctx, &r)
			scen.Emit(ctx, &r, tp)
		}
		res := simrt.Run(cfg, func() { sc.Run(ctx) })
		sc.Check(ctx, &res)
		scen.Emit(ctx, &res, tp)
		os.Exit(0)
	})
}
