// Package tape is the single source of choice of a simulated run.
//
// Every decision a run makes (which goroutine runs next, how a write is
// segmented, which fault fires, what the workload does) is one Draw. In search
// mode fresh values come from a PCG stream seeded by the run seed; in replay
// mode they come from a recorded tape (value mod n) and, once that is
// exhausted, are 0 — the boring choice — so that cutting the tail of a tape
// means "plain sequential, fault-free from here on". The values actually
// returned form the effective tape, which is what a replay file stores.
package tape

import (
	"math/rand/v2"
)

// Tape is not safe for concurrent use; simrt guarantees a single drawer.
type Tape struct {
	replay  []int32
	pos     int
	replayM bool
	rng     *rand.Rand

	Eff    []int32  // effective tape: every value returned, in order
	Lab    []uint16 // label id per draw
	labels []string
	labIdx map[string]uint16

	// MaxDraws aborts runaway runs (0 = unlimited). Checked by the caller.
	Fresh int // number of draws that were not served from the replay tape
}

// New returns a search-mode tape.
func New(seed uint64) *Tape {
	return &Tape{rng: rand.New(rand.NewPCG(seed, 0x9e3779b97f4a7c15^seed<<1)), labIdx: map[string]uint16{}}
}

// NewReplay returns a tape that serves vals first. After exhaustion it returns
// zeros (padZero) or falls back to the PCG stream of seed.
func NewReplay(vals []int32, seed uint64, padZero bool) *Tape {
	t := New(seed)
	t.replay = vals
	t.replayM = true
	if !padZero {
		t.replayM = false
	}
	return t
}

func (t *Tape) label(l string) uint16 {
	if id, ok := t.labIdx[l]; ok {
		return id
	}
	id := uint16(len(t.labels))
	t.labels = append(t.labels, l)
	t.labIdx[l] = id
	return id
}

// Labels returns the label table (index = id used in Lab).
func (t *Tape) Labels() []string { return t.labels }

// Rand exposes the generator for biased generation in search mode only. It
// must only be used inside a gen callback passed to DrawGen.
func (t *Tape) next(n int, gen func(r *rand.Rand) int) int {
	if t.pos < len(t.replay) {
		v := int(t.replay[t.pos])
		t.pos++
		if v < 0 {
			v = -v
		}
		return v % n
	}
	if t.replayM {
		return 0
	}
	t.Fresh++
	if gen != nil {
		v := gen(t.rng)
		if v < 0 || v >= n {
			v = 0
		}
		return v
	}
	return t.rng.IntN(n)
}

// Draw returns a value in [0,n). n<=1 returns 0 without consuming the tape.
func (t *Tape) Draw(n int, label string) int {
	return t.DrawGen(n, label, nil)
}

// DrawGen is Draw with a custom generator for fresh values (bias only; the
// recorded value is the plain result, so replay does not need the generator).
func (t *Tape) DrawGen(n int, label string, gen func(r *rand.Rand) int) int {
	if n <= 1 {
		return 0
	}
	v := t.next(n, gen)
	t.Eff = append(t.Eff, int32(v))
	t.Lab = append(t.Lab, t.label(label))
	return v
}

// Replaying reports whether values are still being served from a recorded tape.
func (t *Tape) Replaying() bool { return t.pos < len(t.replay) }
