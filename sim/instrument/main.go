// Command instrument rewrites the working-tree sources of selected TarsGo
// packages into scheduler-aware copies and emits a `go build -overlay` file.
// Nothing under the repository is modified.
//
// Rewrites (all syntactic, see DESIGN.md section 3):
//   - simrt.Yield(site) before every statement
//   - go f(a)      -> go simrt.GoCall(id, ellipsis, f, a); go func(){..}() gets simrt.Start(id)
//   - x.Lock()     -> simrt.Lock(x.TryLock, x.Lock, site); x.Unlock() -> simrt.Unlock(x.Unlock)
//   - once.Do(f)   -> simrt.OnceDo(&once, once.Do, f)   (atomic section; callers exclude each other like on a lock)
//   - select       -> tape-ordered probing of the ready cases
//   - m.Range(f)   -> simrt.RangeSorted(m.Range, f)
//   - os.Exit(c)   -> simrt.Exit(c)
//   - import "net" -> verifsim/simnet (selected packages)
package main

import (
	"bytes"
	"encoding/json"
	"flag"
	"fmt"
	"go/ast"
	"go/parser"
	"go/printer"
	"go/token"
	"os"
	"path/filepath"
	"sort"
	"strconv"
	"strings"
)

var (
	fset     = token.NewFileSet()
	noSelect = flag.Bool("noselect", false, "do not rewrite selects")
	syncOnly = flag.Bool("synconly", false, "yield only before synchronisation statements")
	nSelect  int
	nYield   int
	nLock    int
	nGo      int
	curFile  string
	labelSeq int
	goSeq    int
	siteBase = 64
	siteList []string
)

func siteID(pos token.Pos) ast.Expr {
	p := fset.Position(pos)
	siteList = append(siteList, fmt.Sprintf("%s:%d", curFile, p.Line))
	return &ast.BasicLit{Kind: token.INT, Value: strconv.Itoa(siteBase + len(siteList) - 1)}
}

func call(fn string, args ...ast.Expr) *ast.CallExpr {
	return &ast.CallExpr{Fun: &ast.SelectorExpr{X: ast.NewIdent("simrt"), Sel: ast.NewIdent(fn)}, Args: args}
}

func yieldStmt(pos token.Pos) ast.Stmt {
	nYield++
	return &ast.ExprStmt{X: call("Yield", siteID(pos))}
}

func rewriteFuncLits(n ast.Node) {
	if n == nil {
		return
	}
	ast.Inspect(n, func(x ast.Node) bool {
		if fl, ok := x.(*ast.FuncLit); ok {
			fl.Body.List = processList(fl.Body.List)
			return false
		}
		if _, ok := x.(*ast.BlockStmt); ok {
			return false
		}
		// comparators handed to package sort stay free of yields: how often they are
		// called depends on the initial order of the data, which may come from a map
		// iteration (random), and would make the step count differ between runs
		if c, ok := x.(*ast.CallExpr); ok {
			if se, ok := c.Fun.(*ast.SelectorExpr); ok {
				if id, ok := se.X.(*ast.Ident); ok && id.Name == "sort" {
					return false
				}
			}
		}
		return true
	})
}

func isMethodCall(e ast.Expr, names ...string) (*ast.SelectorExpr, bool) {
	c, ok := e.(*ast.CallExpr)
	if !ok {
		return nil, false
	}
	s, ok := c.Fun.(*ast.SelectorExpr)
	if !ok {
		return nil, false
	}
	for _, n := range names {
		if s.Sel.Name == n {
			return s, true
		}
	}
	return nil, false
}

func addrOf(x ast.Expr) ast.Expr {
	return &ast.UnaryExpr{Op: token.AND, X: &ast.ParenExpr{X: x}}
}

func sel(x ast.Expr, name string) ast.Expr { return &ast.SelectorExpr{X: x, Sel: ast.NewIdent(name)} }

func exprString(e ast.Expr) string {
	var b bytes.Buffer
	printer.Fprint(&b, token.NewFileSet(), e)
	return b.String()
}

// rewriteCalls handles .Range(f) and os.Exit(c) anywhere inside n (not
// descending into nested statements' blocks twice is harmless: the rewrite is
// idempotent because the rewritten call no longer matches).
var rewriteNow, rewriteTLS bool

func rewriteCalls(n ast.Node) {
	ast.Inspect(n, func(x ast.Node) bool {
		// gtime.CurrUnixTime (and the date strings): TarsGo's cached clock, kept by a goroutine that
		// package gtime starts at init, outside the bubble, on the real clock. Read through
		// simrt.Gtime() it is what that goroutine would have stored at the last whole second of
		// the simulated clock.
		if se, ok := x.(*ast.SelectorExpr); ok {
			if id, ok := se.X.(*ast.Ident); ok && id.Name == "gtime" && strings.HasPrefix(se.Sel.Name, "Curr") {
				se.X = &ast.CallExpr{Fun: &ast.SelectorExpr{X: ast.NewIdent("simrt"), Sel: ast.NewIdent("Gtime")}}
				return false
			}
		}
		c, ok := x.(*ast.CallExpr)
		if !ok {
			return true
		}
		s, ok := c.Fun.(*ast.SelectorExpr)
		if !ok {
			return true
		}
		if id, ok := s.X.(*ast.Ident); ok && id.Name == "simrt" {
			return true
		}
		if s.Sel.Name == "Range" && len(c.Args) == 1 {
			c.Args = []ast.Expr{&ast.SelectorExpr{X: s.X, Sel: ast.NewIdent("Range")}, c.Args[0]}
			c.Fun = &ast.SelectorExpr{X: ast.NewIdent("simrt"), Sel: ast.NewIdent("RangeSorted")}
			return true
		}
		if id, ok := s.X.(*ast.Ident); ok && id.Name == "os" && s.Sel.Name == "Exit" && len(c.Args) == 1 {
			c.Fun = &ast.SelectorExpr{X: ast.NewIdent("simrt"), Sel: ast.NewIdent("Exit")}
		}
		// os.StartProcess -> simrt.StartProcess (no process is started from inside a simulated run)
		if id, ok := s.X.(*ast.Ident); ok && id.Name == "os" && s.Sel.Name == "StartProcess" && len(c.Args) == 3 {
			c.Fun = &ast.SelectorExpr{X: ast.NewIdent("simrt"), Sel: ast.NewIdent("StartProcess")}
		}
		// tls.DialWithDialer -> net.TLSDialWithDialer (net is the simulated network in these files)
		if id, ok := s.X.(*ast.Ident); ok && rewriteTLS && id.Name == "tls" && s.Sel.Name == "DialWithDialer" && len(c.Args) == 4 {
			c.Fun = &ast.SelectorExpr{X: ast.NewIdent("net"), Sel: ast.NewIdent("TLSDialWithDialer")}
		}
		// two reads of a real clock never return the same instant; the bubble's clock
		// stands still between events
		if id, ok := s.X.(*ast.Ident); ok && rewriteNow && id.Name == "time" && s.Sel.Name == "Now" && len(c.Args) == 0 {
			c.Fun = &ast.SelectorExpr{X: ast.NewIdent("simrt"), Sel: ast.NewIdent("Now")}
		}
		return true
	})
}

// onceNames: identifiers declared with a ...Once type anywhere in the packages being
// instrumented (struct fields, variables), collected in a first pass.
var onceNames = map[string]bool{}

func collectOnceNames(f *ast.File) {
	isOnce := func(t ast.Expr) bool {
		return t != nil && strings.HasSuffix(strings.TrimPrefix(exprString(t), "*"), "Once")
	}
	ast.Inspect(f, func(n ast.Node) bool {
		switch t := n.(type) {
		case *ast.Field:
			if isOnce(t.Type) {
				for _, id := range t.Names {
					onceNames[id.Name] = true
				}
			}
		case *ast.ValueSpec:
			if isOnce(t.Type) {
				for _, id := range t.Names {
					onceNames[id.Name] = true
				}
			}
		}
		return true
	})
}

var reinitSrc string

// collectReinit looks for the package-level initialisers of rogger's flush signalling and turns
// them into a function that executes them again.
func collectReinit(f *ast.File) {
	want := map[string]bool{"syncDone": true, "syncCancel": true, "asyncDone": true, "asyncCancel": true}
	var stmts []string
	pkgs := map[string]bool{}
	for _, d := range f.Decls {
		g, ok := d.(*ast.GenDecl)
		if !ok || g.Tok != token.VAR {
			continue
		}
		for _, sp := range g.Specs {
			vs, ok := sp.(*ast.ValueSpec)
			if !ok || len(vs.Values) == 0 {
				continue
			}
			hit := false
			var names []string
			for _, n := range vs.Names {
				names = append(names, n.Name)
				hit = hit || want[n.Name]
			}
			if !hit {
				continue
			}
			var vals []string
			for _, v := range vs.Values {
				vals = append(vals, exprString(v))
				ast.Inspect(v, func(x ast.Node) bool {
					if se, ok := x.(*ast.SelectorExpr); ok {
						if id, ok := se.X.(*ast.Ident); ok {
							pkgs[id.Name] = true
						}
					}
					return true
				})
			}
			stmts = append(stmts, "\t"+strings.Join(names, ", ")+" = "+strings.Join(vals, ", "))
		}
	}
	if len(stmts) == 0 {
		if reinitSrc == "" {
			reinitSrc = "package rogger\n\nfunc verifReinitFlushSignalling() {}\n"
		}
		return
	}
	var imps []string
	for _, im := range f.Imports {
		path, _ := strconv.Unquote(im.Path.Value)
		name := path[strings.LastIndex(path, "/")+1:]
		if im.Name != nil {
			name = im.Name.Name
		}
		if pkgs[name] {
			if im.Name != nil {
				imps = append(imps, "\t"+im.Name.Name+" "+im.Path.Value)
			} else {
				imps = append(imps, "\t"+im.Path.Value)
			}
		}
	}
	reinitSrc = "package rogger\n\nimport (\n" + strings.Join(imps, "\n") + "\n)\n\n// generated from the package-level initialisers of the tree under test\nfunc verifReinitFlushSignalling() {\n" + strings.Join(stmts, "\n") + "\n}\n"
}

func isOnceRecv(x ast.Expr) bool {
	switch t := x.(type) {
	case *ast.Ident:
		if onceNames[t.Name] {
			return true
		}
	case *ast.SelectorExpr:
		if onceNames[t.Sel.Name] {
			return true
		}
	}
	return strings.Contains(strings.ToLower(exprString(x)), "once")
}

func processStmt(s ast.Stmt) ast.Stmt {
	switch t := s.(type) {
	case *ast.BlockStmt:
		t.List = processList(t.List)
	case *ast.IfStmt:
		rewriteFuncLits(t.Init)
		rewriteFuncLits(t.Cond)
		t.Body.List = processList(t.Body.List)
		if t.Else != nil {
			t.Else = processStmt(t.Else)
		}
	case *ast.ForStmt:
		rewriteFuncLits(t.Init)
		rewriteFuncLits(t.Cond)
		rewriteFuncLits(t.Post)
		t.Body.List = processList(t.Body.List)
	case *ast.RangeStmt:
		rewriteFuncLits(t.X)
		t.Body.List = processList(t.Body.List)
	case *ast.SwitchStmt:
		rewriteFuncLits(t.Init)
		rewriteFuncLits(t.Tag)
		for _, c := range t.Body.List {
			cc := c.(*ast.CaseClause)
			cc.Body = processList(cc.Body)
		}
	case *ast.TypeSwitchStmt:
		for _, c := range t.Body.List {
			cc := c.(*ast.CaseClause)
			cc.Body = processList(cc.Body)
		}
	case *ast.SelectStmt:
		for _, c := range t.Body.List {
			cc := c.(*ast.CommClause)
			cc.Body = processList(cc.Body)
		}
		if !*noSelect {
			if r := rewriteSelect(t); r != nil {
				return r
			}
		}
	case *ast.LabeledStmt:
		if ss, ok := t.Stmt.(*ast.SelectStmt); ok {
			for _, c := range ss.Body.List {
				cc := c.(*ast.CommClause)
				cc.Body = processList(cc.Body)
			}
		} else {
			t.Stmt = processStmt(t.Stmt)
		}
	case *ast.ExprStmt:
		rewriteFuncLits(t.X)
		ce, _ := t.X.(*ast.CallExpr)
		if sx, ok := isMethodCall(t.X, "Lock", "RLock"); ok && len(ce.Args) == 0 {
			nLock++
			try := "TryLock"
			if sx.Sel.Name == "RLock" {
				try = "TryRLock"
			}
			t.X = call("Lock", addrOf(sx.X), sel(sx.X, try), sel(sx.X, sx.Sel.Name), siteID(t.Pos()))
		} else if sx, ok := isMethodCall(t.X, "Unlock", "RUnlock"); ok && len(ce.Args) == 0 {
			t.X = call("Unlock", addrOf(sx.X), sel(sx.X, sx.Sel.Name))
		} else if sx, ok := isMethodCall(t.X, "Do"); ok && len(ce.Args) == 1 && isOnceRecv(sx.X) {
			t.X = call("OnceDo", addrOf(sx.X), sel(sx.X, "Do"), ce.Args[0])
		}
	case *ast.AssignStmt:
		rewriteFuncLits(s)
		// _ = once.Do(f)
		if len(t.Lhs) == 1 && len(t.Rhs) == 1 {
			if id, ok := t.Lhs[0].(*ast.Ident); ok && id.Name == "_" {
				if sx, ok := isMethodCall(t.Rhs[0], "Do"); ok && len(t.Rhs[0].(*ast.CallExpr).Args) == 1 && isOnceRecv(sx.X) {
					return &ast.ExprStmt{X: call("OnceDoErr", addrOf(sx.X), sel(sx.X, "Do"), t.Rhs[0].(*ast.CallExpr).Args[0])}
				}
			}
		}
	case *ast.DeferStmt:
		rewriteFuncLits(t.Call)
		if sx, ok := isMethodCall(t.Call, "Unlock", "RUnlock"); ok && len(t.Call.Args) == 0 {
			t.Call = call("Unlock", addrOf(sx.X), sel(sx.X, sx.Sel.Name))
		}
	case *ast.GoStmt:
		rewriteFuncLits(t.Call)
	default:
		rewriteFuncLits(s)
	}
	return s
}

func hasLabel(n ast.Node) bool {
	found := false
	ast.Inspect(n, func(x ast.Node) bool {
		if _, ok := x.(*ast.LabeledStmt); ok {
			found = true
		}
		if _, ok := x.(*ast.FuncLit); ok {
			return false
		}
		return !found
	})
	return found
}

func cloneStmt(s ast.Stmt) ast.Stmt {
	var buf bytes.Buffer
	buf.WriteString("package p\nfunc _() {\n")
	printer.Fprint(&buf, token.NewFileSet(), s)
	buf.WriteString("\n}\n")
	f, err := parser.ParseFile(token.NewFileSet(), "", buf.Bytes(), 0)
	if err != nil {
		panic(fmt.Sprintf("clone: %v\n%s", err, buf.String()))
	}
	return f.Decls[0].(*ast.FuncDecl).Body.List[0]
}

func chanExprOf(cc *ast.CommClause) *ast.Expr {
	switch c := cc.Comm.(type) {
	case *ast.SendStmt:
		return &c.Chan
	case *ast.ExprStmt:
		if u, ok := c.X.(*ast.UnaryExpr); ok {
			return &u.X
		}
	case *ast.AssignStmt:
		if u, ok := c.Rhs[0].(*ast.UnaryExpr); ok {
			return &u.X
		}
	}
	return nil
}

// rewriteSelect implements tape-ordered probing. Returns nil if not rewritten.
func rewriteSelect(s *ast.SelectStmt) ast.Stmt {
	n := 0
	for _, c := range s.Body.List {
		cc := c.(*ast.CommClause)
		if cc.Comm != nil {
			n++
			if chanExprOf(cc) == nil {
				return nil
			}
		}
	}
	if n < 2 || hasLabel(s) {
		return nil
	}
	nSelect++
	labelSeq++
	lbl := fmt.Sprintf("_vprobe%d", labelSeq)
	ord := fmt.Sprintf("_vord%d", labelSeq)
	idx := fmt.Sprintf("_vi%d", labelSeq)
	var hoist []ast.Stmt
	chanVar := func(k int) string { return fmt.Sprintf("_vc%d_%d", labelSeq, k) }
	gateVar := func(k int) string { return fmt.Sprintf("_vg%d_%d", labelSeq, k) }
	pos := s.Pos()
	orig := cloneStmt(s).(*ast.SelectStmt)
	probe := cloneStmt(s).(*ast.SelectStmt)
	k := 0
	for i, c := range s.Body.List {
		cc := c.(*ast.CommClause)
		if cc.Comm == nil {
			continue
		}
		ce := chanExprOf(cc)
		hoist = append(hoist, &ast.AssignStmt{Lhs: []ast.Expr{ast.NewIdent(chanVar(k))}, Tok: token.DEFINE, Rhs: []ast.Expr{*ce}})
		*chanExprOf(orig.Body.List[i].(*ast.CommClause)) = ast.NewIdent(chanVar(k))
		*chanExprOf(probe.Body.List[i].(*ast.CommClause)) = ast.NewIdent(gateVar(k))
		k++
	}
	var pl []ast.Stmt
	for _, c := range probe.Body.List {
		if c.(*ast.CommClause).Comm != nil {
			pl = append(pl, c)
		}
	}
	pl = append(pl, &ast.CommClause{Body: []ast.Stmt{
		&ast.IncDecStmt{X: ast.NewIdent(idx), Tok: token.INC},
		&ast.BranchStmt{Tok: token.GOTO, Label: ast.NewIdent(lbl)},
	}})
	probe.Body.List = pl
	var gates []ast.Stmt
	for j := 0; j < n; j++ {
		gates = append(gates, &ast.AssignStmt{Lhs: []ast.Expr{ast.NewIdent(gateVar(j))}, Tok: token.DEFINE, Rhs: []ast.Expr{ast.NewIdent(chanVar(j))}})
		gates = append(gates, &ast.IfStmt{
			Cond: &ast.BinaryExpr{X: &ast.IndexExpr{X: ast.NewIdent(ord), Index: ast.NewIdent(idx)}, Op: token.NEQ, Y: &ast.BasicLit{Kind: token.INT, Value: strconv.Itoa(j)}},
			Body: &ast.BlockStmt{List: []ast.Stmt{&ast.AssignStmt{Lhs: []ast.Expr{ast.NewIdent(gateVar(j))}, Tok: token.ASSIGN, Rhs: []ast.Expr{ast.NewIdent("nil")}}}},
		})
	}
	probeBlock := append(gates, probe)
	stmts := append([]ast.Stmt{}, hoist...)
	stmts = append(stmts,
		&ast.AssignStmt{Lhs: []ast.Expr{ast.NewIdent(ord)}, Tok: token.DEFINE, Rhs: []ast.Expr{call("SelectOrder", siteID(pos), &ast.BasicLit{Kind: token.INT, Value: strconv.Itoa(n)})}},
		&ast.AssignStmt{Lhs: []ast.Expr{ast.NewIdent(idx)}, Tok: token.DEFINE, Rhs: []ast.Expr{&ast.BasicLit{Kind: token.INT, Value: "0"}}},
		&ast.LabeledStmt{Label: ast.NewIdent(lbl), Stmt: &ast.IfStmt{
			Cond: &ast.BinaryExpr{X: ast.NewIdent(idx), Op: token.LSS, Y: &ast.BasicLit{Kind: token.INT, Value: strconv.Itoa(n)}},
			Body: &ast.BlockStmt{List: probeBlock},
			Else: &ast.BlockStmt{List: []ast.Stmt{orig}},
		}},
	)
	return &ast.BlockStmt{List: stmts}
}

func rewriteGo(g *ast.GoStmt) ast.Stmt {
	goSeq++
	nGo++
	tv := fmt.Sprintf("_vt%d", goSeq)
	var stmts []ast.Stmt
	stmts = append(stmts, &ast.AssignStmt{Lhs: []ast.Expr{ast.NewIdent(tv)}, Tok: token.DEFINE, Rhs: []ast.Expr{call("Spawn")}})
	start := &ast.ExprStmt{X: call("Start", ast.NewIdent(tv))}
	if fl, ok := g.Call.Fun.(*ast.FuncLit); ok {
		fl.Body.List = append([]ast.Stmt{start}, fl.Body.List...)
		stmts = append(stmts, g)
		return &ast.BlockStmt{List: stmts}
	}
	ell := "false"
	if g.Call.Ellipsis.IsValid() {
		ell = "true"
	}
	args := append([]ast.Expr{ast.NewIdent(tv), ast.NewIdent(ell), g.Call.Fun}, g.Call.Args...)
	stmts = append(stmts, &ast.GoStmt{Call: call("GoCall", args...)})
	return &ast.BlockStmt{List: stmts}
}

func isSyncStmt(s ast.Stmt) bool {
	found := false
	ast.Inspect(s, func(x ast.Node) bool {
		switch t := x.(type) {
		case *ast.GoStmt, *ast.SelectStmt, *ast.SendStmt:
			found = true
		case *ast.UnaryExpr:
			if t.Op == token.ARROW {
				found = true
			}
		case *ast.CallExpr:
			if se, ok := t.Fun.(*ast.SelectorExpr); ok {
				switch se.Sel.Name {
				case "Lock", "RLock", "Unlock", "RUnlock", "Do", "Load", "Store", "Delete", "Range", "Wait", "Read", "Write", "Close", "Accept":
					found = true
				}
				if id, ok := se.X.(*ast.Ident); ok && id.Name == "atomic" {
					found = true
				}
			}
		case *ast.BlockStmt:
			return false
		}
		return !found
	})
	return found
}

func processList(list []ast.Stmt) []ast.Stmt {
	var out []ast.Stmt
	for _, s := range list {
		pos := s.Pos()
		rewriteCalls(s)
		// go once.Do(f) -> go func() { once.Do(f) }(): the Do inside is then rewritten like any other
		if g, ok := s.(*ast.GoStmt); ok {
			if sx, ok := isMethodCall(g.Call, "Do"); ok && len(g.Call.Args) == 1 && isOnceRecv(sx.X) {
				g.Call = &ast.CallExpr{Fun: &ast.FuncLit{Type: &ast.FuncType{Params: &ast.FieldList{}}, Body: &ast.BlockStmt{List: []ast.Stmt{&ast.ExprStmt{X: g.Call}}}}}
			}
		}
		_, isGo := s.(*ast.GoStmt)
		want := !*syncOnly || isSyncStmt(s)
		s2 := processStmt(s)
		if want {
			out = append(out, yieldStmt(pos))
		}
		if isGo {
			out = append(out, rewriteGo(s2.(*ast.GoStmt)))
			continue
		}
		out = append(out, s2)
	}
	return out
}

func buildHeader(src []byte) string {
	var hdr []string
	for _, ln := range strings.Split(string(src), "\n") {
		t := strings.TrimSpace(ln)
		if strings.HasPrefix(t, "package ") {
			break
		}
		if strings.HasPrefix(t, "//go:build") || strings.HasPrefix(t, "// +build") {
			hdr = append(hdr, t)
		}
	}
	if len(hdr) == 0 {
		return ""
	}
	return strings.Join(hdr, "\n") + "\n\n"
}

func main() {
	outdir := flag.String("out", "", "output directory")
	repo := flag.String("repo", "/repo", "repository root")
	simDir := flag.String("simdir", "/verif/sim", "harness module directory")
	shimDir := flag.String("shims", "", "directory with <pkgpath>/*.go files to add to packages")
	netPkgs := flag.String("netpkgs", "tars/transport,tars/util/grace,tars/util/tools", "packages whose net import is replaced")
	extra := flag.String("extra", "", "extra overlay entries dst=src,dst=src")
	flag.Parse()
	if *outdir == "" {
		fmt.Fprintln(os.Stderr, "need -out")
		os.Exit(2)
	}
	overlay := map[string]string{}
	netSet := map[string]bool{}
	for _, p := range strings.Split(*netPkgs, ",") {
		netSet[p] = true
	}
	for _, dir := range flag.Args() {
		if strings.HasSuffix(dir, ".go") {
			dir = filepath.Dir(dir)
		}
		files, _ := filepath.Glob(filepath.Join(*repo, dir, "*.go"))
		for _, fn := range files {
			if strings.HasSuffix(fn, "_test.go") {
				continue
			}
			if f, err := parser.ParseFile(token.NewFileSet(), fn, nil, 0); err == nil {
				collectOnceNames(f)
			}
		}
	}
	nfiles := 0
	for _, dir := range flag.Args() {
		onlyFile := ""
		if strings.HasSuffix(dir, ".go") {
			onlyFile = filepath.Base(dir)
			dir = filepath.Dir(dir)
		}
		files, _ := filepath.Glob(filepath.Join(*repo, dir, "*.go"))
		sort.Strings(files)
		for _, fn := range files {
			if strings.HasSuffix(fn, "_test.go") || (onlyFile != "" && filepath.Base(fn) != onlyFile) {
				continue
			}
			rel, _ := filepath.Rel(*repo, fn)
			curFile = rel
			rewriteNow = dir == "tars" || dir == "tars/transport"
			rewriteTLS = netSet[dir]
			src, err := os.ReadFile(fn)
			if err != nil {
				fmt.Fprintln(os.Stderr, err)
				os.Exit(2)
			}
			f, err := parser.ParseFile(fset, fn, src, 0)
			if err != nil {
				fmt.Fprintln(os.Stderr, "parse:", err)
				os.Exit(2)
			}
			if dir == "tars/util/rogger" {
				collectReinit(f)
			}
			for _, d := range f.Decls {
				if t, ok := d.(*ast.FuncDecl); ok && t.Body != nil && !(t.Name.Name == "init" && t.Recv == nil) {
					t.Body.List = processList(t.Body.List)
				}
			}
			usesOS, usesTime, usesGtime := false, false, false
			if netSet[dir] {
				for _, im := range f.Imports {
					if im.Path.Value == `"net"` {
						im.Path.Value = strconv.Quote("verifsim/simnet")
						im.Name = ast.NewIdent("net")
					}
				}
			}
			for _, im := range f.Imports {
				if im.Path.Value == `"os"` && im.Name == nil {
					usesOS = true
				}
				if im.Path.Value == `"time"` && im.Name == nil {
					usesTime = true
				}
				if strings.HasSuffix(im.Path.Value, `/util/gtime"`) && im.Name == nil {
					usesGtime = true
				}
			}
			added := false
			for _, d := range f.Decls {
				if g, ok := d.(*ast.GenDecl); ok && g.Tok == token.IMPORT {
					g.Specs = append(g.Specs, &ast.ImportSpec{Path: &ast.BasicLit{Kind: token.STRING, Value: strconv.Quote("verifsim/simrt")}})
					if !g.Lparen.IsValid() {
						g.Lparen = g.Pos()
						g.Rparen = g.End()
					}
					added = true
					break
				}
			}
			if !added {
				g := &ast.GenDecl{Tok: token.IMPORT, Lparen: 1, Rparen: 1, Specs: []ast.Spec{&ast.ImportSpec{Path: &ast.BasicLit{Kind: token.STRING, Value: strconv.Quote("verifsim/simrt")}}}}
				f.Decls = append([]ast.Decl{g}, f.Decls...)
			}
			var buf bytes.Buffer
			buf.WriteString(buildHeader(src))
			if err := (&printer.Config{Mode: printer.UseSpaces | printer.TabIndent, Tabwidth: 8}).Fprint(&buf, fset, f); err != nil {
				fmt.Fprintln(os.Stderr, "print:", err)
				os.Exit(2)
			}
			buf.WriteString("\nvar _ = simrt.Yield\n")
			if usesOS {
				buf.WriteString("var _ = os.Getpid\n")
			}
			if usesTime {
				buf.WriteString("var _ = time.Now\n")
			}
			if usesGtime {
				buf.WriteString("var _ = gtime.CurrUnixTime\n")
			}
			dst := filepath.Join(*outdir, "inst", rel)
			os.MkdirAll(filepath.Dir(dst), 0755)
			if err := os.WriteFile(dst, buf.Bytes(), 0644); err != nil {
				fmt.Fprintln(os.Stderr, err)
				os.Exit(2)
			}
			overlay[fn] = dst
			nfiles++
		}
	}
	// rogger: the flush signalling (two contexts) is one-shot and has to be set up again inside the
	// bubble. The harness must not decide how: the package's own initialiser expressions are
	// re-executed, copied from the tree under test.
	if reinitSrc != "" {
		dst := filepath.Join(*outdir, "inst", "tars/util/rogger", "zz_verif_reinit.go")
		os.MkdirAll(filepath.Dir(dst), 0755)
		if err := os.WriteFile(dst, []byte(reinitSrc), 0644); err == nil {
			overlay[filepath.Join(*repo, "tars/util/rogger", "zz_verif_reinit.go")] = dst
		}
	}
	// shims: files added to TarsGo packages
	if *shimDir != "" {
		filepath.Walk(*shimDir, func(p string, info os.FileInfo, err error) error {
			if err != nil || info.IsDir() || !strings.HasSuffix(p, ".go") {
				return nil
			}
			rel, _ := filepath.Rel(*shimDir, p)
			overlay[filepath.Join(*repo, rel)] = p
			return nil
		})
	}
	if *extra != "" {
		for _, e := range strings.Split(*extra, ",") {
			kv := strings.SplitN(e, "=", 2)
			if len(kv) == 2 {
				overlay[kv[0]] = kv[1]
			}
		}
	}
	// site table, added to package simrt of the harness module
	var sb bytes.Buffer
	sb.WriteString("package simrt\n\nfunc init() {\n\tRegisterSites(" + strconv.Itoa(siteBase) + ", []string{\n")
	for _, s := range siteList {
		sb.WriteString("\t\t" + strconv.Quote(s) + ",\n")
	}
	sb.WriteString("\t})\n}\n")
	sitesFile := filepath.Join(*outdir, "zz_sites_gen.go")
	os.WriteFile(sitesFile, sb.Bytes(), 0644)
	overlay[filepath.Join(*simDir, "simrt", "zz_sites_gen.go")] = sitesFile
	js, _ := json.MarshalIndent(map[string]interface{}{"Replace": overlay}, "", " ")
	if err := os.WriteFile(filepath.Join(*outdir, "overlay.json"), js, 0644); err != nil {
		fmt.Fprintln(os.Stderr, err)
		os.Exit(2)
	}
	fmt.Fprintf(os.Stderr, "instrumented %d files: %d yields, %d locks, %d selects, %d go statements, %d sites\n", nfiles, nYield, nLock, nSelect, nGo, len(siteList))
}
