package transport

import "reflect"

// VerifInFlight returns the connection's count of requests written and not yet answered
// (trusted harness code added by the build overlay). Through reflection, so that it builds
// whatever the tree calls the field; ok is false when there is no integer field invokeNum.
func (tc *TarsClient) VerifInFlight() (n int64, ok bool) {
	v := reflect.ValueOf(tc).Elem().FieldByName("conn")
	if !v.IsValid() {
		return 0, false
	}
	if v.Kind() == reflect.Ptr {
		if v.IsNil() {
			return 0, false
		}
		v = v.Elem()
	}
	f := v.FieldByName("invokeNum")
	if !f.IsValid() || !f.CanInt() {
		return 0, false
	}
	return f.Int(), true
}
