package tars

// Trusted harness code added to package tars by the build overlay (not part of
// TarsGo): creates the application inside the simulation bubble and exposes
// read-only views of the counters the properties name.

import (
	"sort"
	"sync/atomic"

	"github.com/TarsCloud/TarsGo/tars/transport"
	"github.com/TarsCloud/TarsGo/tars/util/endpoint"
)

// VerifFreshApp installs a fresh application (its channels then belong to the
// current bubble) and returns its client configuration for the harness to set.
func VerifFreshApp() *VerifClientConf {
	defaultApp = newApp()
	c := defaultApp.ClientConfig()
	return &VerifClientConf{c}
}

// VerifClientConf lets the harness set client time-outs programmatically
// (what a config file would do).
type VerifClientConf struct{ c *clientConfig }

func (v *VerifClientConf) Raw() *clientConfig { return v.c }

// VerifNewServer builds a TarsServer for a servant the way addServantCommon
// does, with a programmatic transport configuration instead of a config file.
func VerifNewServer(v dispatch, f interface{}, withContext bool, conf *transport.TarsServerConf) (*transport.TarsServer, *Protocol) {
	jp := NewTarsProtocol(v, f, withContext)
	jp.app = defaultApp
	return transport.NewTarsServer(jp, conf), jp
}

// VerifProxyState is a snapshot of the per-proxy resources C09 names.
type VerifProxyState struct {
	QueueLen     int32
	InvokeNum    int32
	Pending      int // entries in the pending-reply tables of all adapters
	Adapters     int
	ConnInFlight int64 // requests written and not yet answered, summed over the adapters' connections
}

func VerifState(s *ServantProxy) VerifProxyState {
	st := VerifProxyState{QueueLen: atomic.LoadInt32(&s.queueLen)}
	if em, ok := s.manager.(*endpointManager); ok {
		st.InvokeNum = atomic.LoadInt32(&em.invokeNum)
		em.epList.Range(func(k, v interface{}) bool {
			st.Adapters++
			st.Pending += verifPending(v.(*AdapterProxy))
			if tc := v.(*AdapterProxy).tarsClient; tc != nil {
				if n, ok := tc.VerifInFlight(); ok {
					st.ConnInFlight += n
				}
			}
			return true
		})
	}
	return st
}

// VerifAdapter is the health record of one endpoint.
type VerifAdapter struct {
	Key    string
	Host   string
	Port   int32
	Status bool
}

// VerifAdapters lists the adapters the manager of s has created.
func VerifAdapters(s *ServantProxy) []VerifAdapter {
	var out []VerifAdapter
	if em, ok := s.manager.(*endpointManager); ok {
		em.epList.Range(func(k, v interface{}) bool {
			a := v.(*AdapterProxy)
			out = append(out, VerifAdapter{Key: k.(string), Host: a.point.Host, Port: a.point.Port, Status: a.status})
			return true
		})
	}
	sort.Slice(out, func(i, j int) bool { return out[i].Key < out[j].Key })
	return out
}

// VerifActive returns the hosts:ports currently in rotation.
func VerifActive(s *ServantProxy) []endpoint.Endpoint {
	if em, ok := s.manager.(*endpointManager); ok {
		if em.epLock.TryLock() {
			defer em.epLock.Unlock()
		}
		return append([]endpoint.Endpoint(nil), em.activeEp...)
	}
	return nil
}

// VerifModHashList returns the endpoint list installed in the manager's mod-hash selector, in slot order.
func VerifModHashList(s *ServantProxy) []endpoint.Endpoint {
	if em, ok := s.manager.(*endpointManager); ok && em.activeEpModHash != nil {
		l, _ := em.activeEpModHash.VerifEndpoints()
		return l
	}
	return nil
}

// VerifNewServerAny is VerifNewServer for a dispatcher held in an interface value
// (the generated family modules are only known through reflection).
func VerifNewServerAny(v interface{}, f interface{}, withContext bool, conf *transport.TarsServerConf) (*transport.TarsServer, *Protocol) {
	return VerifNewServer(v.(dispatch), f, withContext, conf)
}

// VerifModHashState returns the installed list and the weighted cycle of the manager's mod-hash selector.
func VerifModHashState(s *ServantProxy) ([]endpoint.Endpoint, []int) {
	if em, ok := s.manager.(*endpointManager); ok && em.activeEpModHash != nil {
		return em.activeEpModHash.VerifEndpoints()
	}
	return nil, nil
}

// VerifRotation returns the hosts each of the manager's three selectors routes over.
func VerifRotation(s *ServantProxy) (rr, con, mod []string) {
	em, ok := s.manager.(*endpointManager)
	if !ok {
		return
	}
	if em.activeEpRoundRobin != nil {
		rr = em.activeEpRoundRobin.VerifHosts()
	}
	if em.activeEpConHash != nil {
		con = em.activeEpConHash.VerifHosts()
	}
	if em.activeEpModHash != nil {
		l, _ := em.activeEpModHash.VerifEndpoints()
		for _, e := range l {
			mod = append(mod, e.Host)
		}
		sort.Strings(mod)
	}
	return
}

// VerifGraceRestart runs the application's graceful-restart step (what SIGUSR2 triggers): the process
// starts its successor and keeps serving, and logging, until the successor has taken over.
func VerifGraceRestart() { defaultApp.graceRestart() }
