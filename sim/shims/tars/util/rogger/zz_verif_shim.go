package rogger

import (
	"context"

	"verifsim/simrt"
)

// VerifReset recreates the logger's queue and flush signalling inside the
// current synctest bubble and starts a fresh flusher there (trusted harness
// code added by the overlay; not part of TarsGo).
func VerifReset(queueCap int) {
	logQueue = make(chan *logValue, queueCap)
	syncDone, syncCancel = context.WithCancel(context.Background())
	asyncDone, asyncCancel = context.WithCancel(context.Background())
	simrt.GoNamed("flusher", flushLog)
}

// VerifQueueLen returns the number of queued entries.
func VerifQueueLen() int { return len(logQueue) }
