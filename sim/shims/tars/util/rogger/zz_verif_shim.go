package rogger

import "verifsim/simrt"

// VerifReset recreates the logger's queue and flush signalling inside the
// current synctest bubble and starts a fresh flusher there (trusted harness
// code added by the overlay; not part of TarsGo).
func VerifReset(queueCap int) {
	logQueue = make(chan *logValue, queueCap)
	verifReinitFlushSignalling() // the tree's own initialisers, see the instrumenter
	simrt.GoNamed("flusher", flushLog)
}

// VerifQueueLen returns the number of queued entries.
func VerifQueueLen() int { return len(logQueue) }

// VerifNewSmallRoller is NewRollFileWriter with the roll size in bytes (the public constructor
// takes megabytes; a simulated run logs a few hundred bytes).
func VerifNewSmallRoller(logpath, name string, num int, size int64) *RollFileWriter {
	w := NewRollFileWriter(logpath, name, num, 1)
	w.size = size
	return w
}
