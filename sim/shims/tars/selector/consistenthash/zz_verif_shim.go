package consistenthash

import "sort"

// VerifHosts returns the hosts that have points on the ring (trusted harness code added by the build overlay).
func (c *ConsistentHash) VerifHosts() []string {
	if c.TryRLock() {
		defer c.RUnlock()
	}
	seen := map[string]bool{}
	for _, e := range c.hashRing {
		seen[e.Host] = true
	}
	var out []string
	for h := range seen {
		out = append(out, h)
	}
	sort.Strings(out)
	return out
}
