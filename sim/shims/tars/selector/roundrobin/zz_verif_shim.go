package roundrobin

import (
	"reflect"
	"sort"
)

// VerifHosts returns the hosts the selector routes over (trusted harness code added by the build overlay).
func (r *RoundRobin) VerifHosts() []string {
	if r.TryRLock() {
		defer r.RUnlock()
	}
	var out []string
	for _, e := range r.endpoints {
		out = append(out, e.Host)
	}
	sort.Strings(out)
	return out
}

// VerifSetCursor moves both rotation cursors to v (as if that many selections had been made).
// Through reflection, so that it builds whatever integer type the cursors have.
func (r *RoundRobin) VerifSetCursor(v uint64) {
	r.Lock()
	defer r.Unlock()
	for _, f := range []interface{}{&r.lastPosition, &r.lastStaticWeightPosition} {
		e := reflect.ValueOf(f).Elem()
		switch e.Kind() {
		case reflect.Uint, reflect.Uint32, reflect.Uint64, reflect.Uintptr:
			e.SetUint(v)
		case reflect.Int, reflect.Int32, reflect.Int64:
			e.SetInt(int64(v))
		}
	}
}
