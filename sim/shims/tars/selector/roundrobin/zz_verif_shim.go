package roundrobin

import "sort"

// VerifHosts returns the hosts the selector routes over (trusted harness code added by the build overlay).
func (r *RoundRobin) VerifHosts() []string {
	if r.TryRLock() {
		defer r.RUnlock()
	}
	var out []string
	for _, e := range r.endpoints {
		out = append(out, e.Host)
	}
	sort.Strings(out)
	return out
}
