package modhash

import "github.com/TarsCloud/TarsGo/tars/util/endpoint"

// VerifEndpoints returns the installed endpoint list in slot order and the
// weighted cycle, if any (trusted harness code added by the build overlay).
func (m *ModHash) VerifEndpoints() ([]endpoint.Endpoint, []int) {
	if m.TryRLock() {
		defer m.RUnlock()
	}
	return append([]endpoint.Endpoint(nil), m.endpoints...), append([]int(nil), m.staticWeightRouterCache...)
}
