// Package VerifAll is filled in at check time: vsim builds tars2go from the
// repository's working tree, runs it on /verif/idl/VerifAll.tars and adds the
// output to this package through the build overlay.
package VerifAll
