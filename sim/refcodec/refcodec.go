// Package refcodec is an independent implementation of the parts of the Tars
// wire format the harness needs (length-prefixed frames, RequestPacket,
// ResponsePacket and generic field trees), written from the format description
// and sharing no code with tars/protocol/codec, so that a self-consistent codec
// bug in the code under test cannot cancel out on both ends of the wire.
package refcodec

import (
	"encoding/binary"
	"errors"
	"fmt"
	"math"
	"sort"
)

// wire types
const (
	TInt8 = iota
	TInt16
	TInt32
	TInt64
	TFloat
	TDouble
	TString1
	TString4
	TMap
	TList
	TStructBegin
	TStructEnd
	TZero
	TSimpleList
)

// Field is one decoded field (generic tree).
type Field struct {
	Tag    int
	Type   int
	Int    int64
	F      float64
	S      []byte // string / simple list payload
	List   []Field
	Map    [][2]Field
	Struct []Field
}

// Enc builds an encoding.
type Enc struct{ B []byte }

func (e *Enc) head(tag, typ int) {
	if tag < 15 {
		e.B = append(e.B, byte(tag<<4|typ))
	} else {
		e.B = append(e.B, byte(0xF0|typ), byte(tag))
	}
}

// Int writes an integer in its narrowest width.
func (e *Enc) Int(tag int, v int64) {
	switch {
	case v == 0:
		e.head(tag, TZero)
	case v >= math.MinInt8 && v <= math.MaxInt8:
		e.head(tag, TInt8)
		e.B = append(e.B, byte(v))
	case v >= math.MinInt16 && v <= math.MaxInt16:
		e.head(tag, TInt16)
		e.B = binary.BigEndian.AppendUint16(e.B, uint16(v))
	case v >= math.MinInt32 && v <= math.MaxInt32:
		e.head(tag, TInt32)
		e.B = binary.BigEndian.AppendUint32(e.B, uint32(v))
	default:
		e.head(tag, TInt64)
		e.B = binary.BigEndian.AppendUint64(e.B, uint64(v))
	}
}

func (e *Enc) String(tag int, s string) {
	if len(s) > 255 {
		e.head(tag, TString4)
		e.B = binary.BigEndian.AppendUint32(e.B, uint32(len(s)))
	} else {
		e.head(tag, TString1)
		e.B = append(e.B, byte(len(s)))
	}
	e.B = append(e.B, s...)
}

// Bytes writes a vector<byte> as a simple list.
func (e *Enc) Bytes(tag int, b []byte) {
	e.head(tag, TSimpleList)
	e.head(0, TInt8)
	e.Int(0, int64(len(b)))
	e.B = append(e.B, b...)
}

// StrMap writes map<string,string> (keys in sorted order).
func (e *Enc) StrMap(tag int, m map[string]string) {
	e.head(tag, TMap)
	e.Int(0, int64(len(m)))
	keys := make([]string, 0, len(m))
	for k := range m {
		keys = append(keys, k)
	}
	sort.Strings(keys)
	for _, k := range keys {
		e.String(0, k)
		e.String(1, m[k])
	}
}

type dec struct {
	b   []byte
	pos int
}

var errShort = errors.New("refcodec: truncated input")

func (d *dec) need(n int) error {
	if n < 0 || d.pos+n > len(d.b) {
		return errShort
	}
	return nil
}

func (d *dec) headAt() (tag, typ int, err error) {
	if err = d.need(1); err != nil {
		return
	}
	h := d.b[d.pos]
	d.pos++
	typ = int(h & 0x0F)
	tag = int(h >> 4)
	if tag == 15 {
		if err = d.need(1); err != nil {
			return
		}
		tag = int(d.b[d.pos])
		d.pos++
	}
	return
}

func (d *dec) field(depth int) (Field, error) {
	if depth > 64 {
		return Field{}, errors.New("refcodec: nesting too deep")
	}
	tag, typ, err := d.headAt()
	if err != nil {
		return Field{}, err
	}
	f := Field{Tag: tag, Type: typ}
	switch typ {
	case TZero:
	case TInt8:
		if err := d.need(1); err != nil {
			return f, err
		}
		f.Int = int64(int8(d.b[d.pos]))
		d.pos++
	case TInt16:
		if err := d.need(2); err != nil {
			return f, err
		}
		f.Int = int64(int16(binary.BigEndian.Uint16(d.b[d.pos:])))
		d.pos += 2
	case TInt32:
		if err := d.need(4); err != nil {
			return f, err
		}
		f.Int = int64(int32(binary.BigEndian.Uint32(d.b[d.pos:])))
		d.pos += 4
	case TInt64:
		if err := d.need(8); err != nil {
			return f, err
		}
		f.Int = int64(binary.BigEndian.Uint64(d.b[d.pos:]))
		d.pos += 8
	case TFloat:
		if err := d.need(4); err != nil {
			return f, err
		}
		f.F = float64(math.Float32frombits(binary.BigEndian.Uint32(d.b[d.pos:])))
		d.pos += 4
	case TDouble:
		if err := d.need(8); err != nil {
			return f, err
		}
		f.F = math.Float64frombits(binary.BigEndian.Uint64(d.b[d.pos:]))
		d.pos += 8
	case TString1:
		if err := d.need(1); err != nil {
			return f, err
		}
		n := int(d.b[d.pos])
		d.pos++
		if err := d.need(n); err != nil {
			return f, err
		}
		f.S = d.b[d.pos : d.pos+n]
		d.pos += n
	case TString4:
		if err := d.need(4); err != nil {
			return f, err
		}
		n := int(binary.BigEndian.Uint32(d.b[d.pos:]))
		d.pos += 4
		if err := d.need(n); err != nil {
			return f, err
		}
		f.S = d.b[d.pos : d.pos+n]
		d.pos += n
	case TSimpleList:
		_, et, err := d.headAt()
		if err != nil {
			return f, err
		}
		if et != TInt8 {
			return f, fmt.Errorf("refcodec: simple list of type %d", et)
		}
		lf, err := d.field(depth + 1)
		if err != nil {
			return f, err
		}
		if !lf.isInt() {
			return f, errors.New("refcodec: simple list length is not an integer")
		}
		n := int(lf.Int)
		if err := d.need(n); err != nil {
			return f, err
		}
		f.S = d.b[d.pos : d.pos+n]
		d.pos += n
	case TList:
		lf, err := d.field(depth + 1)
		if err != nil {
			return f, err
		}
		if !lf.isInt() || lf.Int < 0 || lf.Int > int64(len(d.b)) {
			return f, errors.New("refcodec: bad list length")
		}
		for i := int64(0); i < lf.Int; i++ {
			e, err := d.field(depth + 1)
			if err != nil {
				return f, err
			}
			f.List = append(f.List, e)
		}
	case TMap:
		lf, err := d.field(depth + 1)
		if err != nil {
			return f, err
		}
		if !lf.isInt() || lf.Int < 0 || lf.Int > int64(len(d.b)) {
			return f, errors.New("refcodec: bad map length")
		}
		for i := int64(0); i < lf.Int; i++ {
			k, err := d.field(depth + 1)
			if err != nil {
				return f, err
			}
			v, err := d.field(depth + 1)
			if err != nil {
				return f, err
			}
			f.Map = append(f.Map, [2]Field{k, v})
		}
	case TStructBegin:
		for {
			e, err := d.field(depth + 1)
			if err != nil {
				return f, err
			}
			if e.Type == TStructEnd {
				break
			}
			f.Struct = append(f.Struct, e)
		}
	case TStructEnd:
	default:
		return f, fmt.Errorf("refcodec: unknown wire type %d", typ)
	}
	return f, nil
}

func (f Field) isInt() bool {
	return f.Type == TZero || f.Type == TInt8 || f.Type == TInt16 || f.Type == TInt32 || f.Type == TInt64
}

// DecodeFields decodes a sequence of top-level fields.
func DecodeFields(b []byte) ([]Field, error) {
	d := &dec{b: b}
	var out []Field
	for d.pos < len(b) {
		f, err := d.field(0)
		if err != nil {
			return out, err
		}
		out = append(out, f)
	}
	return out, nil
}

func find(fs []Field, tag int) *Field {
	for i := range fs {
		if fs[i].Tag == tag {
			return &fs[i]
		}
	}
	return nil
}

func strMap(f *Field) (map[string]string, error) {
	if f == nil {
		return nil, nil
	}
	if f.Type != TMap {
		return nil, fmt.Errorf("refcodec: tag %d is not a map", f.Tag)
	}
	m := map[string]string{}
	for _, kv := range f.Map {
		m[string(kv[0].S)] = string(kv[1].S)
	}
	return m, nil
}

// Request mirrors requestf.RequestPacket.
type Request struct {
	Version     int16
	PacketType  int8
	MessageType int32
	RequestID   int32
	Servant     string
	Func        string
	Buffer      []byte
	Timeout     int32
	Context     map[string]string
	Status      map[string]string
}

// Response mirrors requestf.ResponsePacket.
type Response struct {
	Version     int16
	PacketType  int8
	RequestID   int32
	MessageType int32
	Ret         int32
	Buffer      []byte
	Status      map[string]string
	ResultDesc  string
	Context     map[string]string
	HasDesc     bool
}

func frame(body []byte) []byte {
	out := make([]byte, 4, 4+len(body))
	binary.BigEndian.PutUint32(out, uint32(4+len(body)))
	return append(out, body...)
}

// EncodeRequest returns the framed encoding of r.
func EncodeRequest(r *Request) []byte {
	var e Enc
	e.Int(1, int64(r.Version))
	e.Int(2, int64(r.PacketType))
	e.Int(3, int64(r.MessageType))
	e.Int(4, int64(r.RequestID))
	e.String(5, r.Servant)
	e.String(6, r.Func)
	e.Bytes(7, r.Buffer)
	e.Int(8, int64(r.Timeout))
	e.StrMap(9, r.Context)
	e.StrMap(10, r.Status)
	return frame(e.B)
}

// EncodeResponse returns the framed encoding of r.
func EncodeResponse(r *Response) []byte {
	var e Enc
	e.Int(1, int64(r.Version))
	e.Int(2, int64(r.PacketType))
	e.Int(3, int64(r.RequestID))
	e.Int(4, int64(r.MessageType))
	e.Int(5, int64(r.Ret))
	e.Bytes(6, r.Buffer)
	e.StrMap(7, r.Status)
	if r.ResultDesc != "" || r.HasDesc {
		e.String(8, r.ResultDesc)
	}
	if r.Context != nil {
		e.StrMap(9, r.Context)
	}
	return frame(e.B)
}

func intOf(fs []Field, tag int, req bool) (int64, error) {
	f := find(fs, tag)
	if f == nil {
		if req {
			return 0, fmt.Errorf("refcodec: required tag %d missing", tag)
		}
		return 0, nil
	}
	if !f.isInt() {
		return 0, fmt.Errorf("refcodec: tag %d is not an integer (wire type %d)", tag, f.Type)
	}
	return f.Int, nil
}

func bytesOf(fs []Field, tag int) ([]byte, error) {
	f := find(fs, tag)
	if f == nil {
		return nil, fmt.Errorf("refcodec: required tag %d missing", tag)
	}
	switch f.Type {
	case TSimpleList:
		return append([]byte(nil), f.S...), nil
	case TList:
		b := make([]byte, len(f.List))
		for i, e := range f.List {
			b[i] = byte(e.Int)
		}
		return b, nil
	}
	return nil, fmt.Errorf("refcodec: tag %d is not a byte vector", tag)
}

func strOf(fs []Field, tag int) (string, bool) {
	f := find(fs, tag)
	if f == nil || (f.Type != TString1 && f.Type != TString4) {
		return "", false
	}
	return string(f.S), true
}

// DecodeRequest decodes a framed request.
func DecodeRequest(fr []byte) (*Request, error) {
	if len(fr) < 4 || int(binary.BigEndian.Uint32(fr)) != len(fr) {
		return nil, errors.New("refcodec: bad frame")
	}
	fs, err := DecodeFields(fr[4:])
	if err != nil {
		return nil, err
	}
	r := &Request{}
	var v int64
	if v, err = intOf(fs, 1, true); err != nil {
		return nil, err
	}
	r.Version = int16(v)
	if v, err = intOf(fs, 2, true); err != nil {
		return nil, err
	}
	r.PacketType = int8(v)
	if v, err = intOf(fs, 3, true); err != nil {
		return nil, err
	}
	r.MessageType = int32(v)
	if v, err = intOf(fs, 4, true); err != nil {
		return nil, err
	}
	r.RequestID = int32(v)
	r.Servant, _ = strOf(fs, 5)
	r.Func, _ = strOf(fs, 6)
	if r.Buffer, err = bytesOf(fs, 7); err != nil {
		return nil, err
	}
	if v, err = intOf(fs, 8, true); err != nil {
		return nil, err
	}
	r.Timeout = int32(v)
	if r.Context, err = strMap(find(fs, 9)); err != nil {
		return nil, err
	}
	if r.Status, err = strMap(find(fs, 10)); err != nil {
		return nil, err
	}
	return r, nil
}

// DecodeResponse decodes a framed response.
func DecodeResponse(fr []byte) (*Response, error) {
	if len(fr) < 4 || int(binary.BigEndian.Uint32(fr)) != len(fr) {
		return nil, errors.New("refcodec: bad frame")
	}
	fs, err := DecodeFields(fr[4:])
	if err != nil {
		return nil, err
	}
	r := &Response{}
	var v int64
	if v, err = intOf(fs, 1, true); err != nil {
		return nil, err
	}
	r.Version = int16(v)
	if v, err = intOf(fs, 2, true); err != nil {
		return nil, err
	}
	r.PacketType = int8(v)
	if v, err = intOf(fs, 3, true); err != nil {
		return nil, err
	}
	r.RequestID = int32(v)
	if v, err = intOf(fs, 4, true); err != nil {
		return nil, err
	}
	r.MessageType = int32(v)
	if v, err = intOf(fs, 5, true); err != nil {
		return nil, err
	}
	r.Ret = int32(v)
	if r.Buffer, err = bytesOf(fs, 6); err != nil {
		return nil, err
	}
	if r.Status, err = strMap(find(fs, 7)); err != nil {
		return nil, err
	}
	r.ResultDesc, r.HasDesc = strOf(fs, 8)
	if r.Context, err = strMap(find(fs, 9)); err != nil {
		return nil, err
	}
	return r, nil
}

// SplitFrames cuts a byte stream into complete length-prefixed frames. It
// stops at the first illegal prefix (<4) and reports it.
func SplitFrames(stream []byte, maxLen int) (frames [][]byte, rest []byte, illegal bool) {
	for len(stream) >= 4 {
		n := int(binary.BigEndian.Uint32(stream))
		if n < 4 || (maxLen > 0 && n > maxLen) {
			return frames, stream, true
		}
		if len(stream) < n {
			break
		}
		frames = append(frames, stream[:n])
		stream = stream[n:]
	}
	return frames, stream, false
}
