#include "textflag.h"

// func getg() uintptr
TEXT ·getg(SB),NOSPLIT,$0-8
	MOVQ (TLS), AX
	MOVQ AX, ret+0(FP)
	RET
