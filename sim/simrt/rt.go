// Package simrt is the run-time of the deterministic simulator: a seeded
// one-at-a-time scheduler for goroutines running inside a testing/synctest
// bubble. Instrumented TarsGo code and harness code call into it at yield
// points; the scheduler releases exactly one parked goroutine per step, chosen
// by the tape.
package simrt

import (
	"errors"
	"fmt"
	"hash/fnv"
	"math/rand/v2"
	"os"
	"reflect"
	"sort"
	"strings"
	"sync"
	"sync/atomic"
	"testing/synctest"
	"time"

	"verifsim/tape"
)

// G is the scheduler's view of one goroutine.
type G struct {
	id      string
	wakeC   chan struct{}
	site    int32
	atom    int
	kids    int
	outside bool
	state   uint8
	pri     float64
	hasPri  bool
	idHash  uint32
	lockID  uintptr
	waitAt  time.Time
	waiting bool
	// "slow goroutine" bookkeeping of the schedule generator (never read when a tape is replayed)
	lagArm   bool // observed a network event since it last ran
	lagAfter int  // own steps until the lag starts (0 = none pending)
	lagUntil int  // not chosen before this scheduling step while others can run
}

const (
	stRunning uint8 = iota
	stParked
	stLockWait
	stStalled
)

// Config of one run.
type Config struct {
	Tape *tape.Tape
	// YieldOff lists site prefixes (repo-relative paths) whose yields are
	// disabled for this run.
	YieldOff []string
	// Strategy: "sticky" or "pct".
	Strategy      string
	Sticky        float64
	PCTDepth      int
	ExpectedSteps int
	StallProb     float64 // probability per step of stalling a goroutine (fresh draws only)
	LagProb       float64 // probability that a goroutine that observed a network event falls behind for a while
	Stalls        bool    // stall slot present in scheduling draws
	MaxSteps      int
	SimLimit      time.Duration
	TraceKeep     int // keep the last N steps as text
}

// Result of one run.
type Result struct {
	Status       string // ok | simlimit | steplimit | exit
	ExitNote     string
	Steps        int
	Switches     int
	Preemptions  int
	Stalls       int
	LockWaitEnd  []string // goroutines still waiting for a lock (or a sync.Once) when the run ended
	LockWaitFor  []time.Duration // ... and for how long (simulated time)
	Marks        int // network events observed by goroutines under the scheduler
	Lags         int // times the schedule generator let such a goroutine fall behind
	StallTotal   time.Duration
	MultiReady   int // selects that had >=2 ready cases
	LockWaits    int
	Hash         uint64 // event-log hash
	SwitchHash   uint64 // hash of the context-switch trace
	SitePairs    []uint32
	SimElapsed   time.Duration
	Goroutines   int
	Dump         []string // goroutine states when the run did not finish
	Trace        []string // last steps
	Events       []string // harness events (bounded)
	EventsTotal  int
	IllegalDraws int
}

var (
	active  atomic.Bool
	stopped atomic.Bool

	mu       sync.Mutex
	gs       = map[int64]*G{}
	parked   []*G
	lockW    = map[uintptr][]*G{}
	lockQ    = map[uintptr][]*G{} // goroutines waiting for a lock, in arrival order
	wake     chan struct{}
	cur      *G
	cfg      Config
	tp       *tape.Tape
	res      Result
	hash     = fnv.New64a()
	swHash   = fnv.New64a()
	pairs    = map[uint32]struct{}{}
	anon     int
	timedOut atomic.Bool
	exited   atomic.Bool
	start    time.Time
	pctAt    []int
	pctInit  bool
	traceBuf []string

	sites    []string
	siteIdx  = map[string]int32{}
	siteOn   []bool
	siteLock sync.Mutex
)

// Site registers (or looks up) a site name and returns its id.
func Site(name string) int32 {
	siteLock.Lock()
	defer siteLock.Unlock()
	if id, ok := siteIdx[name]; ok {
		return id
	}
	id := int32(len(sites))
	sites = append(sites, name)
	siteIdx[name] = id
	siteOn = append(siteOn, true)
	return id
}

// RegisterSites is called by the generated site table of instrumented code.
func RegisterSites(base int32, names []string) {
	siteLock.Lock()
	defer siteLock.Unlock()
	for int32(len(sites)) < base+int32(len(names)) {
		sites = append(sites, "")
		siteOn = append(siteOn, true)
	}
	for i, n := range names {
		sites[base+int32(i)] = n
		siteIdx[n] = base + int32(i)
	}
}

// SiteName returns the name of a site id.
func SiteName(id int32) string {
	if id >= 0 && int(id) < len(sites) {
		return sites[id]
	}
	return fmt.Sprintf("site#%d", id)
}

func inBubble() bool { return time.Now().Year() < 2010 }

var (
	nowMu   sync.Mutex
	lastNow time.Time
)

// Now replaces time.Now in the instrumented tars and transport packages: like a real
// clock it never returns the same instant twice (the bubble's clock stands still
// between events, which would make "did X happen before I started" comparisons tie).
func Now() time.Time {
	t := time.Now()
	if !active.Load() || !inBubble() {
		return t
	}
	nowMu.Lock()
	if !t.After(lastNow) {
		t = lastNow.Add(time.Nanosecond)
	}
	lastNow = t
	nowMu.Unlock()
	return t
}

// GtimeView is what TarsGo's package gtime publishes: the clock as of the last whole second.
type GtimeView struct {
	CurrUnixTime int64
	CurrDateTime string
	CurrDateHour string
	CurrDateDay  string
}

// Gtime replaces reads of gtime.Curr* in instrumented code: the values package gtime's updater
// goroutine would have stored at the last whole second of the clock the caller lives on (the
// bubble's clock inside a run).
func Gtime() GtimeView {
	now := time.Now().Truncate(time.Second)
	return GtimeView{now.Unix(), now.Format("2006-01-02 15:04:05"), now.Format("2006010215"), now.Format("20060102")}
}

// InSim reports whether the caller runs under the scheduler.
func InSim() bool { return active.Load() && !stopped.Load() }

func lookup() *G {
	id := goid()
	mu.Lock()
	g := gs[id]
	if g == nil {
		g = &G{}
		if inBubble() {
			anon++
			g.id = fmt.Sprintf("~anon%d", anon)
			g.wakeC = make(chan struct{}, 1)
			g.idHash = strHash(g.id)
		} else {
			g.outside = true
		}
		gs[id] = g
	}
	mu.Unlock()
	return g
}

func strHash(s string) uint32 {
	h := uint32(2166136261)
	for i := 0; i < len(s); i++ {
		h ^= uint32(s[i])
		h *= 16777619
	}
	return h
}

func nudge() {
	select {
	case wake <- struct{}{}:
	default:
	}
}

// Yield is a scheduling point.
func Yield(site int32) {
	if !active.Load() || stopped.Load() {
		return
	}
	g := lookup()
	if g.outside || g.atom > 0 {
		return
	}
	if int(site) < len(siteOn) && !siteOn[site] {
		return
	}
	park(g, site, stParked)
}

func park(g *G, site int32, st uint8) {
	mu.Lock()
	g.site = site
	g.state = st
	if st == stLockWait {
		lockW[g.lockID] = append(lockW[g.lockID], g)
		res.LockWaits++
	} else {
		parked = append(parked, g)
	}
	mu.Unlock()
	nudge()
	<-g.wakeC
}

// Spawn reserves the logical id of the next child of the calling goroutine.
func Spawn() string {
	if !active.Load() || stopped.Load() {
		return ""
	}
	g := lookup()
	if g.outside {
		return ""
	}
	mu.Lock()
	g.kids++
	id := fmt.Sprintf("%s.%d", g.id, g.kids)
	mu.Unlock()
	return id
}

// Start names the calling (new) goroutine.
func Start(id string) {
	if id == "" || !active.Load() {
		return
	}
	g := &G{id: id, wakeC: make(chan struct{}, 1), idHash: strHash(id)}
	mu.Lock()
	gs[goid()] = g
	res.Goroutines++
	mu.Unlock()
}

// GoCall is what `go f(args...)` is rewritten to: the function value and the
// arguments were evaluated by the parent, the call happens here.
func GoCall(id string, ellipsis bool, fn interface{}, args ...interface{}) {
	Start(id)
	fv := reflect.ValueOf(fn)
	ft := fv.Type()
	in := make([]reflect.Value, len(args))
	for i, a := range args {
		var pt reflect.Type
		if ft.IsVariadic() && i >= ft.NumIn()-1 {
			pt = ft.In(ft.NumIn() - 1)
			if !ellipsis {
				pt = pt.Elem()
			}
		} else {
			pt = ft.In(i)
		}
		if a == nil {
			in[i] = reflect.Zero(pt)
			continue
		}
		v := reflect.ValueOf(a)
		if !v.Type().AssignableTo(pt) && v.Type().ConvertibleTo(pt) {
			v = v.Convert(pt)
		}
		in[i] = v
	}
	if ellipsis {
		fv.CallSlice(in)
	} else {
		fv.Call(in)
	}
}

var (
	siteHarnessGo    = Site("harness.go")
	siteHarnessStart = Site("harness.start")
	siteSleep        = Site("harness.sleep")
)

// Go spawns a harness goroutine with a deterministic id.
func Go(f func()) {
	id := Spawn()
	go func() {
		Start(id)
		Yield(siteHarnessStart)
		f()
	}()
}

// GoNamed is Go with a readable suffix in the logical id.
func GoNamed(name string, f func()) {
	id := Spawn()
	if id != "" {
		id += ":" + name
	}
	go func() {
		Start(id)
		Yield(siteHarnessStart)
		f()
	}()
}

// Sleep sleeps simulated time and re-enters the scheduler afterwards, so that
// the caller may touch shared harness state or draw.
func Sleep(d time.Duration) {
	if d > 0 {
		time.Sleep(d)
	}
	Yield(siteSleep)
}

// ptrOf turns &x (x being the operand of x.Lock()) into the identity of the
// lock: the address x points to when x is itself a pointer (a *sync.Mutex
// variable, or a receiver with an embedded mutex), else the address of x.
func ptrOf(p interface{}) uintptr {
	v := reflect.ValueOf(p)
	if v.Kind() != reflect.Ptr {
		return 0
	}
	if e := v.Elem(); e.Kind() == reflect.Ptr || e.Kind() == reflect.UnsafePointer {
		return e.Pointer()
	}
	return v.Pointer()
}

// Lock is what x.Lock()/x.RLock() is rewritten to. Waiters are woken by the
// matching Unlock. A waiter that has waited for at least 1ms of simulated time is
// starving: nobody who arrived after it may take the lock before it does (what
// sync.Mutex's starvation mode and sync.RWMutex's writer preference guarantee: the
// lock is handed to the head of the queue and newcomers queue at the tail), so the
// scheduler cannot let goroutines barge past a waiter in a way the real primitives
// exclude.
func Lock(idp interface{}, try func() bool, lock func(), site int32) {
	if !active.Load() || stopped.Load() {
		lock()
		return
	}
	g := lookup()
	if g.outside {
		lock()
		return
	}
	// (also for sites whose yields are switched off: the holder may be parked
	// inside a simnet operation, so blocking for real could hang the bubble)
	id := ptrOf(idp)
	for {
		if stopped.Load() {
			lock()
			return
		}
		mu.Lock()
		ok := mayAcquire(id, g)
		mu.Unlock()
		if ok && try() {
			mu.Lock()
			if g.waiting {
				q := lockQ[id]
				for i, w := range q {
					if w == g {
						q = append(q[:i:i], q[i+1:]...)
						break
					}
				}
				if len(q) == 0 {
					delete(lockQ, id)
				} else {
					lockQ[id] = q
				}
			}
			g.waiting = false
			mu.Unlock()
			return
		}
		mu.Lock()
		g.lockID = id
		if !g.waiting {
			g.waiting = true
			g.waitAt = time.Now()
			lockQ[id] = append(lockQ[id], g)
		}
		mu.Unlock()
		park(g, site, stLockWait)
	}
}

// mayAcquire: no other waiter of the lock that queued before g is starving. mu held.
func mayAcquire(id uintptr, g *G) bool {
	now := time.Now()
	for _, w := range lockQ[id] {
		if w == g {
			return true // the queue is in arrival order: nobody before g is starving
		}
		if now.Sub(w.waitAt) >= time.Millisecond {
			return false
		}
	}
	return true
}

// Unlock is what x.Unlock()/x.RUnlock() is rewritten to.
func Unlock(idp interface{}, unlock func()) {
	unlock()
	if !active.Load() || stopped.Load() {
		return
	}
	id := ptrOf(idp)
	mu.Lock()
	if ws := lockW[id]; len(ws) > 0 {
		for _, g := range ws {
			g.state = stParked
		}
		parked = append(parked, ws...)
		delete(lockW, id)
	}
	mu.Unlock()
}

var (
	onceMu   sync.Mutex
	onceBusy = map[uintptr]bool{}
	siteOnce = Site("sync.Once.Do")
)

// onceEnter/onceLeave make concurrent Do calls on one Once exclude each other through the
// simulated lock machinery: sync.Once's own mutex cannot be try-locked, and a goroutine
// blocked on it while the first caller's f is parked (f may block: gpool.Release waits for
// the dispatcher) is not a durable block, which would hang the bubble.
func onceEnter(idp interface{}) {
	id := ptrOf(idp)
	Lock(idp, func() bool {
		onceMu.Lock()
		defer onceMu.Unlock()
		if onceBusy[id] {
			return false
		}
		onceBusy[id] = true
		return true
	}, func() {}, siteOnce)
}

func onceLeave(idp interface{}) {
	id := ptrOf(idp)
	Unlock(idp, func() {
		onceMu.Lock()
		delete(onceBusy, id)
		onceMu.Unlock()
	})
}

// OnceDo runs once.Do(f) with f as an atomic section.
func OnceDo(idp interface{}, do interface{}, f interface{}) {
	dv, fv := reflect.ValueOf(do), reflect.ValueOf(f)
	if !active.Load() || stopped.Load() {
		dv.Call([]reflect.Value{fv})
		return
	}
	g := lookup()
	if g.outside {
		dv.Call([]reflect.Value{fv})
		return
	}
	onceEnter(idp)
	defer onceLeave(idp)
	w := reflect.MakeFunc(fv.Type(), func(args []reflect.Value) []reflect.Value {
		g.atom++
		defer func() { g.atom-- }()
		return fv.Call(args)
	})
	dv.Call([]reflect.Value{w})
}

// OnceDoErr is OnceDo for Do methods that return a value (tars/util/sync.Once).
func OnceDoErr(idp interface{}, do interface{}, f interface{}) []reflect.Value {
	dv, fv := reflect.ValueOf(do), reflect.ValueOf(f)
	if !active.Load() || stopped.Load() {
		return dv.Call([]reflect.Value{fv})
	}
	g := lookup()
	if g.outside {
		return dv.Call([]reflect.Value{fv})
	}
	onceEnter(idp)
	defer onceLeave(idp)
	w := reflect.MakeFunc(fv.Type(), func(args []reflect.Value) []reflect.Value {
		g.atom++
		defer func() { g.atom-- }()
		return fv.Call(args)
	})
	return dv.Call([]reflect.Value{w})
}

// Atomic runs f without scheduling points (harness use).
func Atomic(f func()) {
	if !active.Load() || stopped.Load() {
		f()
		return
	}
	g := lookup()
	g.atom++
	defer func() { g.atom-- }()
	f()
}

// SelectOrder returns the order in which the cases of a select are probed.
func SelectOrder(site int32, n int) []int {
	ord := make([]int, n)
	for i := range ord {
		ord[i] = i
	}
	if !active.Load() || stopped.Load() || n < 2 {
		return ord
	}
	g := lookup()
	if g.outside {
		rand.Shuffle(n, func(i, j int) { ord[i], ord[j] = ord[j], ord[i] })
		return ord
	}
	mu.Lock()
	isCur := g == cur
	mu.Unlock()
	if !isCur {
		// a goroutine that is finishing a statement after being woken (a tail)
		// must not draw; it probes in source order, which is deterministic.
		return ord
	}
	// Fisher-Yates driven by the tape; all-zero draws give the identity order.
	for i := 0; i < n-1; i++ {
		k := Draw(n-i, "select")
		ord[i], ord[i+k] = ord[i+k], ord[i]
	}
	return ord
}

// SelectReady is called by rewritten selects with the number of cases that
// were found ready while probing (statistics only).
func SelectReady(n int) {
	if n >= 2 {
		mu.Lock()
		res.MultiReady++
		mu.Unlock()
	}
}

// RangeSorted iterates a sync.Map-like Range in key order.
func RangeSorted(r func(func(k, v interface{}) bool), f func(k, v interface{}) bool) {
	type kv struct {
		k, v interface{}
		s    string
	}
	var all []kv
	r(func(k, v interface{}) bool { all = append(all, kv{k, v, fmt.Sprint(k)}); return true })
	sort.SliceStable(all, func(i, j int) bool { return all[i].s < all[j].s })
	for _, e := range all {
		if !f(e.k, e.v) {
			return
		}
	}
}

// OnExit is invoked when code under test calls os.Exit.
var OnExit func(r Result)

// Exit replaces os.Exit in instrumented code.
func Exit(code int) {
	if !active.Load() || !inBubble() {
		os.Exit(code)
	}
	if exited.Swap(true) {
		select {}
	}
	note := fmt.Sprintf("os.Exit(%d) called by code under test", code)
	mu.Lock()
	res.Status = "exit"
	res.ExitNote = note
	mu.Unlock()
	r := finalize()
	if OnExit != nil {
		OnExit(r)
	}
	os.Exit(0)
}

// StartProcess replaces os.StartProcess in instrumented code: a simulated run starts no processes.
func StartProcess(name string, argv []string, attr *os.ProcAttr) (*os.Process, error) {
	if !active.Load() || !inBubble() {
		return os.StartProcess(name, argv, attr)
	}
	Event("os.StartProcess(%s) requested by code under test: refused by the simulator", name)
	return nil, errors.New("simulated run: no process is started")
}

// Draw draws from the tape. Only the goroutine released by the scheduler may
// draw (see DESIGN 2.1).
func Draw(n int, label string) int {
	if n <= 1 {
		return 0
	}
	if !active.Load() || stopped.Load() {
		return 0
	}
	g := lookup()
	mu.Lock()
	if g != cur {
		res.IllegalDraws++
		who, site := g.id, SiteName(g.site)
		c := "<none>"
		if cur != nil {
			c = cur.id
		}
		mu.Unlock()
		fmt.Fprintf(os.Stderr, "HARNESS-BUG illegal draw %q by %s (last site %s) while %s is the released goroutine\n", label, who, site, c)
		os.Exit(2)
	}
	v := tp.Draw(n, label)
	mu.Unlock()
	return v
}

// DrawRange draws an int in [lo,hi].
func DrawRange(lo, hi int, label string) int {
	if hi <= lo {
		return lo
	}
	return lo + Draw(hi-lo+1, label)
}

// Pick draws an index biased toward 0 being the first element.
func Pick(n int, label string) int { return Draw(n, label) }

// Event appends a harness event to the event log (hashed; bounded text copy).
func Event(format string, args ...interface{}) {
	s := fmt.Sprintf(format, args...)
	mu.Lock()
	res.EventsTotal++
	fmt.Fprintf(hash, "E|%s\n", s)
	if len(res.Events) < 400 {
		res.Events = append(res.Events, fmt.Sprintf("%9.3fms s%-6d %s", float64(time.Since(start))/1e6, res.Steps, s))
	}
	mu.Unlock()
}

// Step returns the current scheduling step (a global event sequence number).
func Step() int {
	mu.Lock()
	defer mu.Unlock()
	return res.Steps
}

// Elapsed is simulated time since the run started.
func Elapsed() time.Duration { return time.Since(start) }

// CurID returns the logical id of the calling goroutine.
func CurID() string {
	g := lookup()
	return g.id
}

// Stat helpers.
func CountStall() (int, time.Duration) {
	mu.Lock()
	defer mu.Unlock()
	return res.Stalls, res.StallTotal
}

var stallDur = []time.Duration{time.Millisecond, 7 * time.Millisecond, 40 * time.Millisecond, 130 * time.Millisecond, 600 * time.Millisecond, 1300 * time.Millisecond, 3100 * time.Millisecond}

func sortParked() {
	// insertion sort: the list is nearly sorted and small.
	for i := 1; i < len(parked); i++ {
		for j := i; j > 0 && parked[j].id < parked[j-1].id; j-- {
			parked[j], parked[j-1] = parked[j-1], parked[j]
		}
	}
}

// Run executes root under the scheduler. It must be called from inside a
// synctest bubble and returns when root has returned or the run was cut.
func Run(c Config, root func()) Result {
	calibrate()
	cfg = c
	tp = c.Tape
	if cfg.MaxSteps == 0 {
		cfg.MaxSteps = 2_000_000
	}
	if cfg.SimLimit == 0 {
		cfg.SimLimit = time.Hour
	}
	wake = make(chan struct{}, 1)
	start = time.Now()
	siteLock.Lock()
	for i, n := range sites {
		on := true
		for _, p := range cfg.YieldOff {
			if strings.HasPrefix(n, p) {
				on = false
			}
		}
		siteOn[i] = on
	}
	siteLock.Unlock()
	done := make(chan struct{})
	res = Result{Status: "ok"}
	active.Store(true)
	rootG := &G{id: "0", wakeC: make(chan struct{}, 1), idHash: strHash("0")}
	go func() {
		mu.Lock()
		gs[goid()] = rootG
		mu.Unlock()
		Yield(siteHarnessStart)
		root()
		stopped.Store(true)
		close(done)
		nudge()
	}()
	wd := time.AfterFunc(cfg.SimLimit, func() { timedOut.Store(true); nudge() })
	defer wd.Stop()

	var last *G
	var lastSite int32
	for {
		synctest.Wait()
		if stopped.Load() {
			break
		}
		if timedOut.Load() {
			res.Status = "simlimit"
			break
		}
		mu.Lock()
		if len(parked) == 0 {
			mu.Unlock()
			select {
			case <-wake:
			case <-done:
			}
			continue
		}
		if res.Steps >= cfg.MaxSteps {
			res.Status = "steplimit"
			mu.Unlock()
			break
		}
		select {
		case <-wake:
		default:
		}
		sortParked()
		// runnable order: current goroutine first (0 = keep running), then by id
		n := len(parked)
		curIdx := -1
		for i, g := range parked {
			if g == last {
				curIdx = i
				break
			}
		}
		order := func(v int) int { // map draw value -> index in parked
			if curIdx < 0 {
				return v
			}
			if v == 0 {
				return curIdx
			}
			if v <= curIdx {
				return v - 1
			}
			return v
		}
		extra := 0
		if cfg.Stalls {
			extra = 1
		}
		v := tp.DrawGen(n+extra, "sched", func(r *rand.Rand) int { return genSched(r, n, curIdx, order) })
		if v == n { // stall one goroutine for a drawn simulated duration
			k := order(tp.Draw(n, "stall.who"))
			d := stallDur[tp.Draw(len(stallDur), "stall.dur")]
			g := parked[k]
			parked = append(parked[:k], parked[k+1:]...)
			g.state = stStalled
			res.Stalls++
			res.StallTotal += d
			fmt.Fprintf(hash, "S|%s|%d\n", g.id, d)
			time.AfterFunc(d, func() {
				mu.Lock()
				g.state = stParked
				parked = append(parked, g)
				mu.Unlock()
				nudge()
			})
			mu.Unlock()
			continue
		}
		k := order(v)
		g := parked[k]
		parked = append(parked[:k], parked[k+1:]...)
		res.Steps++
		if g != last {
			res.Switches++
			if curIdx >= 0 {
				res.Preemptions++
			}
			var b [8]byte
			b[0], b[1], b[2], b[3] = byte(g.idHash), byte(g.idHash>>8), byte(g.idHash>>16), byte(g.idHash>>24)
			b[4], b[5], b[6], b[7] = byte(g.site), byte(g.site>>8), byte(g.site>>16), byte(g.site>>24)
			swHash.Write(b[:])
			if last != nil && len(pairs) < 4096 {
				pairs[uint32(lastSite)*65599+uint32(g.site)] = struct{}{}
			}
		}
		now := time.Since(start)
		var b [20]byte
		b[0], b[1], b[2], b[3] = byte(g.idHash), byte(g.idHash>>8), byte(g.idHash>>16), byte(g.idHash>>24)
		b[4], b[5], b[6], b[7] = byte(g.site), byte(g.site>>8), byte(g.site>>16), byte(g.site>>24)
		for i := 0; i < 8; i++ {
			b[8+i] = byte(uint64(now) >> (8 * i))
		}
		b[16], b[17], b[18], b[19] = byte(res.Steps), byte(res.Steps>>8), byte(res.Steps>>16), byte(res.Steps>>24)
		hash.Write(b[:])
		if cfg.TraceKeep > 0 {
			line := fmt.Sprintf("%d %9.3fms %s %s", res.Steps, float64(now)/1e6, g.id, SiteName(g.site))
			if len(traceBuf) >= cfg.TraceKeep {
				copy(traceBuf, traceBuf[1:])
				traceBuf[len(traceBuf)-1] = line
			} else {
				traceBuf = append(traceBuf, line)
			}
		}
		last, lastSite = g, g.site
		cur = g
		g.state = stRunning
		mu.Unlock()
		g.wakeC <- struct{}{}
	}
	return finalize()
}

// finalize computes the result record of the run as it stands.
func finalize() Result {
	mu.Lock()
	stopped.Store(true)
	res.Hash = hash.Sum64()
	res.SwitchHash = swHash.Sum64()
	res.SimElapsed = time.Since(start)
	res.SitePairs = res.SitePairs[:0]
	for p := range pairs {
		res.SitePairs = append(res.SitePairs, p)
	}
	sort.Slice(res.SitePairs, func(i, j int) bool { return res.SitePairs[i] < res.SitePairs[j] })
	res.Trace = traceBuf
	res.LockWaitEnd, res.LockWaitFor = nil, nil
	{
		var lw []*G
		for _, g := range gs {
			if !g.outside && g.state == stLockWait {
				lw = append(lw, g)
			}
		}
		sort.Slice(lw, func(i, j int) bool { return lw[i].id < lw[j].id })
		for _, g := range lw {
			res.LockWaitEnd = append(res.LockWaitEnd, fmt.Sprintf("%s at %s", g.id, SiteName(g.site)))
			res.LockWaitFor = append(res.LockWaitFor, time.Since(g.waitAt))
		}
	}
	if res.Status != "ok" {
		var all []*G
		for _, g := range gs {
			if !g.outside {
				all = append(all, g)
			}
		}
		sort.Slice(all, func(i, j int) bool { return all[i].id < all[j].id })
		names := []string{"running-or-blocked", "parked", "lock-wait", "stalled"}
		for _, g := range all {
			res.Dump = append(res.Dump, fmt.Sprintf("%s %s at %s", g.id, names[g.state], SiteName(g.site)))
		}
	}
	r := res
	mu.Unlock()
	return r
}

// Mark tells the schedule generator that the calling goroutine has just observed a
// network event (end of stream, error, accept, dial result, close). With probability
// Config.LagProb the goroutine then falls behind a few of its own steps later: for a
// drawn number of scheduling steps it is not chosen while anybody else can run. No
// simulated time passes. This puts the preemptions that matter - right after somebody
// learned that a connection is gone - where uniformly random schedules rarely put them.
func Mark() {
	if !active.Load() || stopped.Load() {
		return
	}
	g := lookup()
	if g.outside {
		return
	}
	mu.Lock()
	g.lagArm = true
	res.Marks++
	mu.Unlock()
}

// genSched produces a fresh scheduling value according to the strategy.
func genSched(r *rand.Rand, n, curIdx int, order func(int) int) int {
	if cfg.Stalls && cfg.StallProb > 0 && r.Float64() < cfg.StallProb {
		return n
	}
	anyEligible := false
	for _, g := range parked {
		if g.lagArm {
			g.lagArm = false
			if g.lagAfter == 0 && g.lagUntil <= res.Steps && r.Float64() < cfg.LagProb {
				g.lagAfter = 1 + r.IntN(12)
			}
		}
		if g.lagUntil <= res.Steps {
			anyEligible = true
		}
	}
	eligible := func(g *G) bool { return !anyEligible || g.lagUntil <= res.Steps }
	v := genPick(r, n, curIdx, order, eligible)
	if g := parked[order(v)]; g.lagAfter > 0 {
		g.lagAfter--
		if g.lagAfter == 0 {
			g.lagUntil = res.Steps + 1 + 20 + r.IntN(400)
			res.Lags++
		}
	}
	return v
}

func genPick(r *rand.Rand, n, curIdx int, order func(int) int, eligible func(*G) bool) int {
	switch cfg.Strategy {
	case "pct":
		if !pctInit {
			pctInit = true
			es := cfg.ExpectedSteps
			if es < 10 {
				es = 10
			}
			for i := 0; i < cfg.PCTDepth; i++ {
				pctAt = append(pctAt, r.IntN(es))
			}
		}
		for _, g := range parked {
			if !g.hasPri {
				g.hasPri = true
				g.pri = 1 + r.Float64()
			}
		}
		for i, at := range pctAt {
			if at == res.Steps {
				// lower the priority of the goroutine that would run now
				best := bestPri(eligible)
				if best != nil {
					best.pri = float64(i) / float64(len(pctAt)+1)
				}
			}
		}
		best := bestPri(eligible)
		for v := 0; v < n; v++ {
			if parked[order(v)] == best {
				return v
			}
		}
		return 0
	default:
		if curIdx >= 0 && eligible(parked[curIdx]) && r.Float64() < cfg.Sticky {
			return 0
		}
		var el []int
		for v := 0; v < n; v++ {
			if eligible(parked[order(v)]) {
				el = append(el, v)
			}
		}
		return el[r.IntN(len(el))]
	}
}

func bestPri(eligible func(*G) bool) *G {
	var best *G
	for _, g := range parked {
		if !eligible(g) {
			continue
		}
		if best == nil || g.pri > best.pri {
			best = g
		}
	}
	return best
}
