package simrt

import (
	"runtime"
	"strconv"
	"strings"
	"sync"
	"unsafe"
)

func getg() uintptr

var goidOff uintptr // 0 = not calibrated: fall back to runtime.Stack

func slowGoid() int64 {
	var buf [64]byte
	n := runtime.Stack(buf[:], false)
	s := strings.TrimPrefix(string(buf[:n]), "goroutine ")
	if i := strings.IndexByte(s, ' '); i > 0 {
		s = s[:i]
	}
	id, _ := strconv.ParseInt(s, 10, 64)
	return id
}

// calibrate finds the offset of goid inside runtime.g by comparing candidate
// offsets with the id parsed from runtime.Stack on several goroutines. If no
// single offset agrees everywhere the slow path stays in use.
func calibrate() {
	const maxOff = 512
	cand := map[uintptr]bool{}
	for o := uintptr(8); o < maxOff; o += 8 {
		cand[o] = true
	}
	var mu sync.Mutex
	probe := func() {
		g := getg()
		id := slowGoid()
		mu.Lock()
		for o := range cand {
			if *(*int64)(unsafe.Pointer(g + o)) != id {
				delete(cand, o)
			}
		}
		mu.Unlock()
	}
	probe()
	var wg sync.WaitGroup
	for i := 0; i < 8; i++ {
		wg.Add(1)
		go func() { defer wg.Done(); probe() }()
	}
	wg.Wait()
	if len(cand) == 1 {
		for o := range cand {
			goidOff = o
		}
	}
}

func goid() int64 {
	if goidOff != 0 {
		return *(*int64)(unsafe.Pointer(getg() + goidOff))
	}
	return slowGoid()
}
