// Package simnet is the in-memory network of the simulator: a drop-in for the
// subset of package net that TarsGo's transport uses (the import of "net" is
// rewritten to this package in instrumented copies). TCP-like byte streams with
// tape-decided read fragmentation, delivery delay, back-pressure, orderly close,
// reset, refusal and black-holing; UDP-like datagrams with loss, duplication,
// reordering and truncation. Every connection records what was written, what
// each Read returned and who closed when — the raw material of the oracles.
package simnet

import (
	"errors"
	"fmt"
	"io"
	stdnet "net"
	"os"
	"strconv"
	"strings"
	"sync"
	"syscall"
	"time"

	"verifsim/simrt"
)

// Aliases so that code written against package net compiles unchanged.
type (
	Conn     = stdnet.Conn
	Listener = stdnet.Listener
	Error    = stdnet.Error
	OpError  = stdnet.OpError
	Dialer   = stdnet.Dialer
	UDPAddr  = stdnet.UDPAddr
	TCPAddr  = stdnet.TCPAddr
	Addr     = stdnet.Addr
	IP       = stdnet.IP
)

var ErrClosed = stdnet.ErrClosed

var (
	siteRead   = simrt.Site("simnet.Read")
	siteWrite  = simrt.Site("simnet.Write")
	siteClose  = simrt.Site("simnet.Close")
	siteDial   = simrt.Site("simnet.Dial")
	siteAccept = simrt.Site("simnet.Accept")
	siteUDP    = simrt.Site("simnet.UDP")
)

// Config is the per-run behaviour of the network, set by the scenario before
// any connection exists. Zero value: whole reads, no delay, large buffers.
type Config struct {
	Fragment   bool // reads return tape-drawn portions of what is available
	Delay      bool // writes are delivered after tape-drawn delays
	SmallBufs  bool // connection buffers may be tiny (back-pressure)
	DialDelay  bool
	UDPLoss    bool
	UDPDup     bool
	UDPReorder bool
	FragBudget int // fragmented reads per connection end before reads become whole again (default 4000)
}

var Cfg Config

type timeoutErr struct{}

func (timeoutErr) Error() string   { return "i/o timeout" }
func (timeoutErr) Timeout() bool   { return true }
func (timeoutErr) Temporary() bool { return true }

type tcpAddr struct{ s string }

func (a tcpAddr) Network() string { return "tcp" }
func (a tcpAddr) String() string  { return a.s }

// ReadRec records one successful Read.
type ReadRec struct {
	End  int // stream offset after this read
	N    int
	Time time.Duration
	Step int
}

// DroppedRec is a write that was accepted although the peer had closed: its bytes never arrive.
type DroppedRec struct {
	Data []byte
	Step int
	Time time.Duration
}

// WriteRec records one Write call.
type WriteRec struct {
	Off  int // stream offset before the write
	N    int
	Time time.Duration
	Step int
	Err  string
}

// Pipe is one direction of a connection.
type Pipe struct {
	mu        sync.Mutex
	hist      []byte
	readOff   int
	delivOff  int
	endOff    int  // offset of FIN/RST (valid if ended)
	ended     bool // writer closed or reset
	endRST    bool
	endVis    bool // end marker delivered to the reader
	lastDeliv time.Duration
	capacity  int
	notify    chan struct{}
	readerGone     bool
	readerGoneAt   time.Duration
	writesAfterGone int

	Reads  []ReadRec
	Writes []WriteRec
	// Dropped: writes accepted after the reader had closed (the kernel takes the first one and answers RST)
	Dropped []DroppedRec
	// EndTime is when the writer closed/reset this direction (-1 if open).
	EndTime time.Duration
	EndStep int
	// EndSeenTime/Step: when a Read of the other side first returned EOF/RST (-1 before).
	EndSeenTime time.Duration
	EndSeenStep int
}

func newPipe(capacity int) *Pipe {
	return &Pipe{capacity: capacity, notify: make(chan struct{}), EndTime: -1, EndSeenTime: -1, EndSeenStep: -1}
}

func (p *Pipe) broadcastLocked() {
	close(p.notify)
	p.notify = make(chan struct{})
}

func (p *Pipe) broadcast() {
	p.mu.Lock()
	p.broadcastLocked()
	p.mu.Unlock()
}

// Bytes returns everything written to this direction so far.
func (p *Pipe) Bytes() []byte {
	p.mu.Lock()
	defer p.mu.Unlock()
	return append([]byte(nil), p.hist...)
}

// Len returns how many bytes have been written to this direction so far.
func (p *Pipe) Len() int {
	p.mu.Lock()
	defer p.mu.Unlock()
	return len(p.hist)
}

// ReadOffset returns how many bytes the reader has consumed.
func (p *Pipe) ReadOffset() int {
	p.mu.Lock()
	defer p.mu.Unlock()
	return p.readOff
}

// Backlog returns the bytes written but not yet delivered to the reader's side
// and the bytes delivered but not yet read.
func (p *Pipe) Backlog() (undelivered, unread int) {
	p.mu.Lock()
	defer p.mu.Unlock()
	return len(p.hist) - p.delivOff, p.delivOff - p.readOff
}

// Ended reports whether the writer closed (fin) or reset (rst) this direction.
func (p *Pipe) Ended() (ended, rst, visible bool) {
	p.mu.Lock()
	defer p.mu.Unlock()
	return p.ended, p.endRST, p.endVis
}

// TCPConn is one end of a simulated connection.
type TCPConn struct {
	wsem chan struct{} // one Write call at a time, whole (net.Conn writes are atomic per call; a channel blocks durably in the bubble)
	ID            int
	IsClient      bool
	Pair          *ConnPair
	rd, wr        *Pipe
	local, remote tcpAddr
	mu            sync.Mutex
	closed        bool
	rdl, wdl      time.Time
	rdlT, wdlT    *time.Timer
	fragMode      int
	fragReads     int
	delayMode     int

	ClosedAt          time.Duration // local Close time (-1 if open)
	ClosedStep        int
	WritesAfterClose  int
	LateWritesAfterClose int // write attempts at a later simulated instant than the local Close
	ReadsAfterClose   int
	lastWriteAfterClose time.Duration
}

// ConnPair is the record of one established connection.
type ConnPair struct {
	ID       int
	Client   *TCPConn
	Server   *TCPConn
	C2S, S2C *Pipe
	DialTime time.Duration
	DialStep int
	Addr     string
}

type world struct {
	mu        sync.Mutex
	listeners map[string]*TCPListener
	blackhole map[string]bool
	refuse    map[string]bool
	pairs     []*ConnPair
	nextPort  int
	udp       map[string]*UDPConn
	udpAll    []*UDPConn
	DialLog   []DialRec
}

// DialRec records one dial attempt.
type DialRec struct {
	Addr   string
	Time   time.Duration
	Step   int
	Result string // ok | refused | timeout
	PairID int
}

var w = &world{listeners: map[string]*TCPListener{}, blackhole: map[string]bool{}, refuse: map[string]bool{}, nextPort: 40000, udp: map[string]*UDPConn{}}

// Pairs returns the records of all connections established so far.
func Pairs() []*ConnPair {
	w.mu.Lock()
	defer w.mu.Unlock()
	return append([]*ConnPair(nil), w.pairs...)
}

// PairsTo returns the connections dialled to addr so far.
func PairsTo(addr string) []*ConnPair {
	var out []*ConnPair
	for _, p := range Pairs() {
		if p.Addr == addr {
			out = append(out, p)
		}
	}
	return out
}

// Dials returns the log of dial attempts.
func Dials() []DialRec {
	w.mu.Lock()
	defer w.mu.Unlock()
	return append([]DialRec(nil), w.DialLog...)
}

// DumpState describes every connection (debugging aid for stuck runs).
func DumpState() []string {
	var out []string
	for _, pr := range Pairs() {
		for _, x := range []struct {
			n string
			p *Pipe
		}{{"c2s", pr.C2S}, {"s2c", pr.S2C}} {
			p := x.p
			p.mu.Lock()
			out = append(out, fmt.Sprintf("conn#%d %s %s: written=%d delivered=%d read=%d cap=%d ended=%v rst=%v endVis=%v readerGone=%v clientClosed=%v serverClosed=%v",
				pr.ID, pr.Addr, x.n, len(p.hist), p.delivOff, p.readOff, p.capacity, p.ended, p.endRST, p.endVis, p.readerGone, pr.Client.closed, pr.Server.closed))
			p.mu.Unlock()
		}
	}
	return out
}

// Drained reports whether every open connection has consumed everything that
// was written to it (closed readers do not count).
func Drained() bool {
	for _, pr := range Pairs() {
		for _, x := range []struct {
			p *Pipe
			r *TCPConn
		}{{pr.C2S, pr.Server}, {pr.S2C, pr.Client}} {
			if x.r.IsClosed() {
				continue
			}
			u, r := x.p.Backlog()
			if u+r > 0 {
				return false
			}
		}
	}
	return true
}

// CloseListener closes the listener bound to addr, if any (a server process going away).
func CloseListener(addr string) {
	w.mu.Lock()
	l := w.listeners[addr]
	w.mu.Unlock()
	if l != nil {
		l.Close()
	}
}

// SetBlackhole makes dials to addr hang until their timeout (and back).
func SetBlackhole(addr string, on bool) { w.mu.Lock(); w.blackhole[addr] = on; w.mu.Unlock() }

// SetRefuse makes dials to addr fail with ECONNREFUSED even if a listener exists.
func SetRefuse(addr string, on bool) { w.mu.Lock(); w.refuse[addr] = on; w.mu.Unlock() }

func opErr(op string, c *TCPConn, err error) error {
	return &OpError{Op: op, Net: "tcp", Source: c.local, Addr: c.remote, Err: err}
}

var fragSizes = []int{0, 1, 2, 3, 4, 5, 7, 16}

// Read implements net.Conn.
func (c *TCPConn) Read(b []byte) (int, error) {
	n, err := c.read(b)
	if err != nil {
		simrt.Mark()
	}
	return n, err
}

func (c *TCPConn) read(b []byte) (int, error) {
	p := c.rd
	for {
		simrt.Yield(siteRead)
		c.mu.Lock()
		closed, dl := c.closed, c.rdl
		if closed {
			c.ReadsAfterClose++
		}
		c.mu.Unlock()
		if closed {
			return 0, opErr("read", c, ErrClosed)
		}
		if !dl.IsZero() && !time.Now().Before(dl) {
			return 0, opErr("read", c, os.ErrDeadlineExceeded)
		}
		p.mu.Lock()
		avail := p.delivOff - p.readOff
		if avail > 0 && len(b) > 0 {
			n := avail
			if n > len(b) {
				n = len(b)
			}
			p.mu.Unlock()
			if n > 1 {
				n = c.drawReadSize(n)
			}
			p.mu.Lock()
			copy(b, p.hist[p.readOff:p.readOff+n])
			p.readOff += n
			p.Reads = append(p.Reads, ReadRec{End: p.readOff, N: n, Time: simrt.Elapsed(), Step: simrt.Step()})
			p.broadcastLocked() // a blocked writer may proceed
			p.mu.Unlock()
			return n, nil
		}
		if p.ended && p.endVis && p.readOff >= p.endOff {
			rst := p.endRST
			if p.EndSeenStep < 0 {
				p.EndSeenTime, p.EndSeenStep = simrt.Elapsed(), simrt.Step()
				defer simrt.Event("conn#%d: %s read end of stream", c.ID, map[bool]string{true: "client", false: "server"}[c.IsClient])
			}
			p.mu.Unlock()
			if rst {
				return 0, opErr("read", c, os.NewSyscallError("read", syscall.ECONNRESET))
			}
			return 0, io.EOF
		}
		ch := p.notify
		p.mu.Unlock()
		<-ch
	}
}

func (c *TCPConn) drawReadSize(n int) int {
	if c.fragMode != 0 {
		b := Cfg.FragBudget
		if b == 0 {
			b = 4000
		}
		c.fragReads++
		if c.fragReads > b {
			return n
		}
	}
	switch c.fragMode {
	case 1: // mixed
		k := fragSizes[simrt.Draw(len(fragSizes), "net.frag")]
		if k == 0 || k > n {
			return n
		}
		return k
	case 2: // single bytes
		return 1
	case 3: // arbitrary split
		return n - simrt.Draw(n, "net.frag")
	}
	return n
}

var delays = []time.Duration{0, 0, 30 * time.Microsecond, 700 * time.Microsecond, 3 * time.Millisecond, 25 * time.Millisecond, 110 * time.Millisecond}

func (c *TCPConn) drawDelay() time.Duration {
	switch c.delayMode {
	case 1:
		return delays[simrt.Draw(len(delays), "net.delay")]
	case 2:
		return 200 * time.Microsecond
	}
	return 0
}

// deliver schedules [.., upto) of p to become visible after d (in order).
func (p *Pipe) deliverLocked(upto int, d time.Duration, end bool) {
	at := simrt.Elapsed() + d
	if at < p.lastDeliv {
		at = p.lastDeliv
	}
	p.lastDeliv = at
	wait := at - simrt.Elapsed()
	apply := func() {
		if upto > p.delivOff {
			p.delivOff = upto
		}
		if end {
			p.endVis = true
		}
		p.broadcastLocked()
	}
	if wait <= 0 {
		apply()
		return
	}
	time.AfterFunc(wait, func() {
		p.mu.Lock()
		apply()
		p.mu.Unlock()
	})
}

// Write implements net.Conn.
func (c *TCPConn) Write(b []byte) (int, error) {
	c.wsem <- struct{}{}
	defer func() { <-c.wsem }()
	n, err := c.write(b)
	if err != nil {
		simrt.Mark()
	}
	return n, err
}

func (c *TCPConn) write(b []byte) (int, error) {
	p := c.wr
	total := 0
	first := true
	for {
		simrt.Yield(siteWrite)
		c.mu.Lock()
		closed, dl := c.closed, c.wdl
		if closed {
			c.WritesAfterClose++
			c.lastWriteAfterClose = simrt.Elapsed()
			if simrt.Elapsed() > c.ClosedAt {
				c.LateWritesAfterClose++
			}
		}
		c.mu.Unlock()
		if closed {
			simrt.Event("conn#%d: write after local close", c.ID)
			c.recordWrite(total, "closed")
			return total, opErr("write", c, ErrClosed)
		}
		if !dl.IsZero() && !time.Now().Before(dl) {
			c.recordWrite(total, "timeout")
			return total, opErr("write", c, os.ErrDeadlineExceeded)
		}
		p.mu.Lock()
		if p.ended { // we were reset by a fault
			p.mu.Unlock()
			c.recordWrite(total, "reset")
			return total, opErr("write", c, os.NewSyscallError("write", syscall.ECONNRESET))
		}
		if p.readerGone && simrt.Elapsed() >= p.readerGoneAt {
			p.writesAfterGone++
			k := p.writesAfterGone
			p.mu.Unlock()
			if k == 1 && first {
				// the first write after the peer closed is accepted by the
				// kernel and dropped by the peer, which answers RST
				c.recordWrite(len(b), "dropped")
				p.mu.Lock()
				p.Dropped = append(p.Dropped, DroppedRec{Data: append([]byte(nil), b...), Step: simrt.Step(), Time: simrt.Elapsed()})
				p.mu.Unlock()
				return len(b), nil
			}
			c.recordWrite(total, "epipe")
			return total, opErr("write", c, os.NewSyscallError("write", syscall.EPIPE))
		}
		first = false
		room := p.capacity - (len(p.hist) - p.readOff)
		if room > 0 {
			n := len(b) - total
			if n > room {
				n = room
			}
			off := len(p.hist)
			p.hist = append(p.hist, b[total:total+n]...)
			p.mu.Unlock()
			d := c.drawDelay()
			p.mu.Lock()
			p.Writes = append(p.Writes, WriteRec{Off: off, N: n, Time: simrt.Elapsed(), Step: simrt.Step()})
			p.deliverLocked(off+n, d, false)
			p.mu.Unlock()
			total += n
			if total == len(b) {
				return total, nil
			}
			continue
		}
		ch := p.notify
		gone, at := p.readerGone, p.readerGoneAt
		p.mu.Unlock()
		if gone && simrt.Elapsed() < at {
			// the peer has closed, the news is still on its way (delivery delay): it arrives at a
			// known time, and nobody broadcasts then
			select {
			case <-ch:
			case <-time.After(at - simrt.Elapsed()):
			}
			continue
		}
		<-ch
	}
}

func (c *TCPConn) recordWrite(n int, err string) {
	p := c.wr
	p.mu.Lock()
	p.Writes = append(p.Writes, WriteRec{Off: len(p.hist), N: n, Time: simrt.Elapsed(), Step: simrt.Step(), Err: err})
	p.mu.Unlock()
}

// Close implements net.Conn.
func (c *TCPConn) Close() error {
	simrt.Yield(siteClose)
	c.mu.Lock()
	if c.closed {
		c.mu.Unlock()
		return opErr("close", c, ErrClosed)
	}
	c.closed = true
	c.ClosedAt = simrt.Elapsed()
	c.ClosedStep = simrt.Step()
	c.mu.Unlock()
	simrt.Event("conn#%d closed by %s", c.ID, map[bool]string{true: "client", false: "server"}[c.IsClient])
	d := c.drawDelay()
	// unread data pending on our side => the kernel answers with RST
	c.rd.mu.Lock()
	unread := len(c.rd.hist) > c.rd.readOff
	c.rd.readerGone = true
	c.rd.readerGoneAt = simrt.Elapsed() + d
	c.rd.broadcastLocked()
	c.rd.mu.Unlock()
	c.wr.mu.Lock()
	if !c.wr.ended {
		c.wr.ended = true
		c.wr.endRST = unread
		c.wr.endOff = len(c.wr.hist)
		c.wr.EndTime = simrt.Elapsed()
		c.wr.EndStep = simrt.Step()
		c.wr.deliverLocked(c.wr.endOff, d, true)
	}
	c.wr.broadcastLocked()
	c.wr.mu.Unlock()
	return nil
}

// CloseWrite half-closes the connection: the peer reads end of stream after the data
// written so far, the reading direction stays open.
func (c *TCPConn) CloseWrite() error {
	simrt.Yield(siteClose)
	c.mu.Lock()
	closed := c.closed
	c.mu.Unlock()
	if closed {
		return opErr("close", c, ErrClosed)
	}
	simrt.Event("conn#%d half-closed by %s", c.ID, map[bool]string{true: "client", false: "server"}[c.IsClient])
	d := c.drawDelay()
	c.wr.mu.Lock()
	if !c.wr.ended {
		c.wr.ended = true
		c.wr.endRST = false
		c.wr.endOff = len(c.wr.hist)
		c.wr.EndTime = simrt.Elapsed()
		c.wr.EndStep = simrt.Step()
		c.wr.deliverLocked(c.wr.endOff, d, true)
	}
	c.wr.broadcastLocked()
	c.wr.mu.Unlock()
	return nil
}

// Reset tears the connection down as a network fault: both directions end
// with RST immediately, pending undelivered data is lost.
func (pr *ConnPair) Reset() {
	for _, p := range []*Pipe{pr.C2S, pr.S2C} {
		p.mu.Lock()
		if !p.ended || !p.endVis {
			p.ended = true
			p.endRST = true
			p.endVis = true
			if p.delivOff < p.readOff {
				p.delivOff = p.readOff
			}
			p.endOff = p.delivOff
			if p.EndTime < 0 {
				p.EndTime = simrt.Elapsed()
				p.EndStep = simrt.Step()
			}
		}
		p.broadcastLocked()
		p.mu.Unlock()
	}
}

func (c *TCPConn) LocalAddr() stdnet.Addr  { return c.local }
func (c *TCPConn) RemoteAddr() stdnet.Addr { return c.remote }

func (c *TCPConn) SetDeadline(t time.Time) error {
	if err := c.SetReadDeadline(t); err != nil {
		return err
	}
	return c.SetWriteDeadline(t)
}

func (c *TCPConn) setDL(t time.Time, dl *time.Time, tm **time.Timer, p *Pipe, op string) error {
	c.mu.Lock()
	if c.closed {
		c.mu.Unlock()
		return opErr(op, c, ErrClosed)
	}
	*dl = t
	if *tm != nil {
		(*tm).Stop()
		*tm = nil
	}
	if !t.IsZero() {
		d := time.Until(t)
		if d <= 0 {
			c.mu.Unlock()
			p.broadcast()
			return nil
		}
		*tm = time.AfterFunc(d, p.broadcast)
	}
	c.mu.Unlock()
	return nil
}

func (c *TCPConn) SetReadDeadline(t time.Time) error {
	return c.setDL(t, &c.rdl, &c.rdlT, c.rd, "set")
}
func (c *TCPConn) SetWriteDeadline(t time.Time) error {
	return c.setDL(t, &c.wdl, &c.wdlT, c.wr, "set")
}
func (c *TCPConn) SetKeepAlive(bool) error { return nil }
func (c *TCPConn) SetReadBuffer(int) error  { return nil }
func (c *TCPConn) SetWriteBuffer(int) error { return nil }
func (c *TCPConn) SetNoDelay(bool) error    { return nil }

// IsClosed reports whether the local side called Close.
func (c *TCPConn) IsClosed() bool { c.mu.Lock(); defer c.mu.Unlock(); return c.closed }

// TCPListener is a simulated listener.
type TCPListener struct {
	addr    tcpAddr
	mu      sync.Mutex
	queue   []*TCPConn
	closed  bool
	dl      time.Time
	dlT     *time.Timer
	notify  chan struct{}
	Accepts int
}

func (l *TCPListener) broadcastLocked() { close(l.notify); l.notify = make(chan struct{}) }

// Listen announces on the simulated network.
func Listen(network, address string) (Listener, error) {
	if !strings.HasPrefix(network, "tcp") {
		return nil, &OpError{Op: "listen", Net: network, Err: errors.New("simnet: unsupported network")}
	}
	w.mu.Lock()
	defer w.mu.Unlock()
	if l, ok := w.listeners[address]; ok && !l.closed {
		return nil, &OpError{Op: "listen", Net: network, Addr: tcpAddr{address}, Err: os.NewSyscallError("bind", syscall.EADDRINUSE)}
	}
	l := &TCPListener{addr: tcpAddr{address}, notify: make(chan struct{})}
	w.listeners[address] = l
	return l, nil
}

// Accept implements net.Listener.
func (l *TCPListener) Accept() (stdnet.Conn, error) {
	c, err := l.accept()
	simrt.Mark()
	return c, err
}

func (l *TCPListener) accept() (stdnet.Conn, error) {
	for {
		simrt.Yield(siteAccept)
		l.mu.Lock()
		if l.closed {
			l.mu.Unlock()
			return nil, &OpError{Op: "accept", Net: "tcp", Addr: l.addr, Err: ErrClosed}
		}
		if !l.dl.IsZero() && !time.Now().Before(l.dl) {
			l.mu.Unlock()
			return nil, &OpError{Op: "accept", Net: "tcp", Addr: l.addr, Err: os.ErrDeadlineExceeded}
		}
		if len(l.queue) > 0 {
			c := l.queue[0]
			l.queue = l.queue[1:]
			l.Accepts++
			l.mu.Unlock()
			return c, nil
		}
		ch := l.notify
		l.mu.Unlock()
		<-ch
	}
}

// Close implements net.Listener.
func (l *TCPListener) Close() error {
	simrt.Yield(siteClose)
	l.mu.Lock()
	if l.closed {
		l.mu.Unlock()
		return &OpError{Op: "close", Net: "tcp", Addr: l.addr, Err: ErrClosed}
	}
	l.closed = true
	q := l.queue
	l.queue = nil
	l.broadcastLocked()
	l.mu.Unlock()
	for _, c := range q { // connections never accepted are reset
		c.Pair.Reset()
	}
	w.mu.Lock()
	if w.listeners[l.addr.s] == l {
		delete(w.listeners, l.addr.s)
	}
	w.mu.Unlock()
	return nil
}

func (l *TCPListener) Addr() stdnet.Addr { return l.addr }

// SetDeadline sets the accept deadline.
func (l *TCPListener) SetDeadline(t time.Time) error {
	if l == nil {
		return syscall.EINVAL
	}
	l.mu.Lock()
	defer l.mu.Unlock()
	if l.closed {
		return &OpError{Op: "set", Net: "tcp", Addr: l.addr, Err: ErrClosed}
	}
	l.dl = t
	if l.dlT != nil {
		l.dlT.Stop()
		l.dlT = nil
	}
	if !t.IsZero() {
		d := time.Until(t)
		if d <= 0 {
			l.broadcastLocked()
			return nil
		}
		l.dlT = time.AfterFunc(d, func() { l.mu.Lock(); l.broadcastLocked(); l.mu.Unlock() })
	}
	return nil
}

var bufSizes = []int{1 << 26, 1 << 26, 65536, 4096, 256, 64}
var dialDelays = []time.Duration{0, 0, 100 * time.Microsecond, 5 * time.Millisecond, 80 * time.Millisecond}

// DialTimeout connects to a simulated listener.
func DialTimeout(network, address string, d time.Duration) (Conn, error) {
	c, err := dialTimeout(network, address, d)
	simrt.Mark()
	return c, err
}

func dialTimeout(network, address string, d time.Duration) (Conn, error) {
	if strings.HasPrefix(network, "udp") {
		return dialUDP(address)
	}
	simrt.Yield(siteDial)
	w.mu.Lock()
	l := w.listeners[address]
	bh := w.blackhole[address]
	rf := w.refuse[address]
	w.nextPort++
	port := w.nextPort
	w.mu.Unlock()
	rec := DialRec{Addr: address, Time: simrt.Elapsed(), Step: simrt.Step()}
	logDial := func(r string, id int) {
		rec.Result, rec.PairID = r, id
		w.mu.Lock()
		w.DialLog = append(w.DialLog, rec)
		w.mu.Unlock()
	}
	if bh {
		if d <= 0 {
			d = 127 * time.Second // kernel SYN retry limit, roughly
		}
		simrt.Sleep(d)
		logDial("timeout", -1)
		return nil, &OpError{Op: "dial", Net: "tcp", Addr: tcpAddr{address}, Err: timeoutErr{}}
	}
	if l == nil || rf {
		logDial("refused", -1)
		return nil, &OpError{Op: "dial", Net: "tcp", Addr: tcpAddr{address}, Err: os.NewSyscallError("connect", syscall.ECONNREFUSED)}
	}
	var dd time.Duration
	if Cfg.DialDelay {
		dd = dialDelays[simrt.Draw(len(dialDelays), "net.dialdelay")]
		if d > 0 && dd >= d {
			simrt.Sleep(d)
			logDial("timeout", -1)
			return nil, &OpError{Op: "dial", Net: "tcp", Addr: tcpAddr{address}, Err: timeoutErr{}}
		}
	}
	capC2S, capS2C := 1<<26, 1<<26
	if Cfg.SmallBufs {
		capC2S = bufSizes[simrt.Draw(len(bufSizes), "net.buf")]
		capS2C = bufSizes[simrt.Draw(len(bufSizes), "net.buf")]
	}
	frag, delay := 0, 0
	if Cfg.Fragment {
		frag = simrt.Draw(4, "net.fragmode")
	}
	if Cfg.Delay {
		delay = simrt.Draw(3, "net.delaymode")
	}
	a, b := newPipe(capC2S), newPipe(capS2C)
	la := tcpAddr{"10.0.0.1:" + strconv.Itoa(port)}
	ra := tcpAddr{address}
	cc := &TCPConn{wsem: make(chan struct{}, 1), IsClient: true, rd: b, wr: a, local: la, remote: ra, fragMode: frag, delayMode: delay, ClosedAt: -1}
	sc := &TCPConn{wsem: make(chan struct{}, 1), rd: a, wr: b, local: ra, remote: la, fragMode: frag, delayMode: delay, ClosedAt: -1}
	pair := &ConnPair{Client: cc, Server: sc, C2S: a, S2C: b, DialTime: simrt.Elapsed(), DialStep: simrt.Step(), Addr: address}
	cc.Pair, sc.Pair = pair, pair
	w.mu.Lock()
	pair.ID = len(w.pairs)
	cc.ID, sc.ID = pair.ID, pair.ID
	w.pairs = append(w.pairs, pair)
	w.mu.Unlock()
	if dd > 0 {
		simrt.Sleep(dd)
	}
	l.mu.Lock()
	if l.closed {
		l.mu.Unlock()
		logDial("refused", -1)
		return nil, &OpError{Op: "dial", Net: "tcp", Addr: tcpAddr{address}, Err: os.NewSyscallError("connect", syscall.ECONNREFUSED)}
	}
	l.queue = append(l.queue, sc)
	l.broadcastLocked()
	l.mu.Unlock()
	logDial("ok", pair.ID)
	simrt.Event("dial %s -> conn#%d", address, pair.ID)
	return cc, nil
}

// Dial connects without a timeout.
func Dial(network, address string) (Conn, error) { return DialTimeout(network, address, 0) }

// FileListener and FileConn are not available in the simulation.
func FileListener(f *os.File) (Listener, error) { return nil, errors.New("simnet: FileListener unsupported") }
func FileConn(f *os.File) (Conn, error)         { return nil, errors.New("simnet: FileConn unsupported") }

// ---- UDP ----

type dgram struct {
	data []byte
	from *UDPAddr
}

// UDPConn is a simulated UDP socket.
type UDPConn struct {
	addr   *UDPAddr
	key    string
	mu     sync.Mutex
	queue  []dgram
	closed bool
	notify chan struct{}
	rdl    time.Time
	rdlT   *time.Timer
	remote *UDPAddr
	// statistics
	Lost, Duplicated, Delivered, Truncated int
	Sent                                   [][]byte
	Received                               [][]byte // datagrams handed to ReadFromUDP, in order
	dummy                                  bool
}

func ResolveUDPAddr(network, address string) (*UDPAddr, error) {
	host, port, err := stdnet.SplitHostPort(address)
	if err != nil {
		return nil, err
	}
	p, err := strconv.Atoi(port)
	if err != nil {
		return nil, err
	}
	ip := stdnet.ParseIP(host)
	if ip == nil {
		ip = stdnet.IPv4(127, 0, 0, 1)
	}
	return &UDPAddr{IP: ip, Port: p}, nil
}

// UDPSockets returns every UDP socket ever bound (open or closed).
func UDPSockets() []*UDPConn {
	w.mu.Lock()
	defer w.mu.Unlock()
	return append([]*UDPConn(nil), w.udpAll...)
}

// ListenUDP binds a simulated UDP socket.
func ListenUDP(network string, laddr *UDPAddr) (*UDPConn, error) {
	w.mu.Lock()
	defer w.mu.Unlock()
	if laddr == nil || laddr.Port == 0 {
		w.nextPort++
		ip := stdnet.IPv4(10, 0, 0, 1)
		if laddr != nil && laddr.IP != nil {
			ip = laddr.IP
		}
		laddr = &UDPAddr{IP: ip, Port: w.nextPort}
	}
	key := laddr.String()
	if _, ok := w.udp[key]; ok {
		return nil, &OpError{Op: "listen", Net: network, Err: os.NewSyscallError("bind", syscall.EADDRINUSE)}
	}
	u := &UDPConn{addr: laddr, key: key, notify: make(chan struct{})}
	w.udp[key] = u
	w.udpAll = append(w.udpAll, u)
	return u, nil
}

func dialUDP(address string) (Conn, error) {
	ra, err := ResolveUDPAddr("udp", address)
	if err != nil {
		return nil, err
	}
	if !simrt.InSim() {
		// package initialisation (tools.GetLocalIP): no simulated world yet
		return &UDPConn{addr: &UDPAddr{IP: stdnet.IPv4(10, 0, 0, 1), Port: 1}, remote: ra, dummy: true}, nil
	}
	u, err := ListenUDP("udp", nil)
	if err != nil {
		return nil, err
	}
	u.remote = ra
	return u, nil
}

func (u *UDPConn) broadcastLocked() { close(u.notify); u.notify = make(chan struct{}) }

// ReadFromUDP reads one datagram.
func (u *UDPConn) ReadFromUDP(b []byte) (int, *UDPAddr, error) {
	for {
		simrt.Yield(siteUDP)
		u.mu.Lock()
		if u.closed {
			u.mu.Unlock()
			return 0, nil, &OpError{Op: "read", Net: "udp", Err: ErrClosed}
		}
		if !u.rdl.IsZero() && !time.Now().Before(u.rdl) {
			u.mu.Unlock()
			return 0, nil, &OpError{Op: "read", Net: "udp", Err: os.ErrDeadlineExceeded}
		}
		if len(u.queue) > 0 {
			d := u.queue[0]
			u.queue = u.queue[1:]
			n := copy(b, d.data)
			if n < len(d.data) {
				u.Truncated++
			}
			u.Delivered++
			u.Received = append(u.Received, append([]byte(nil), d.data...))
			u.mu.Unlock()
			return n, d.from, nil
		}
		ch := u.notify
		u.mu.Unlock()
		<-ch
	}
}

var udpDelays = []time.Duration{0, 0, 50 * time.Microsecond, 2 * time.Millisecond, 30 * time.Millisecond}

// WriteToUDP sends one datagram.
func (u *UDPConn) WriteToUDP(b []byte, addr *UDPAddr) (int, error) {
	simrt.Yield(siteUDP)
	u.mu.Lock()
	if u.closed {
		u.mu.Unlock()
		return 0, &OpError{Op: "write", Net: "udp", Err: ErrClosed}
	}
	u.Sent = append(u.Sent, append([]byte(nil), b...))
	u.mu.Unlock()
	w.mu.Lock()
	dst := w.udp[addr.String()]
	w.mu.Unlock()
	if dst == nil {
		return len(b), nil // nobody there: silently dropped
	}
	copies := 1
	if Cfg.UDPLoss && simrt.Draw(8, "udp.loss") == 7 {
		copies = 0
		u.mu.Lock()
		u.Lost++
		u.mu.Unlock()
	} else if Cfg.UDPDup && simrt.Draw(8, "udp.dup") == 7 {
		copies = 2
		u.mu.Lock()
		u.Duplicated++
		u.mu.Unlock()
	}
	for i := 0; i < copies; i++ {
		var d time.Duration
		if Cfg.UDPReorder {
			d = udpDelays[simrt.Draw(len(udpDelays), "udp.delay")]
		}
		dg := dgram{data: append([]byte(nil), b...), from: u.addr}
		put := func() {
			dst.mu.Lock()
			if !dst.closed {
				dst.queue = append(dst.queue, dg)
				dst.broadcastLocked()
			}
			dst.mu.Unlock()
		}
		if d == 0 {
			put()
		} else {
			time.AfterFunc(d, put)
		}
	}
	return len(b), nil
}

func (u *UDPConn) Read(b []byte) (int, error) { n, _, err := u.ReadFromUDP(b); return n, err }
func (u *UDPConn) Write(b []byte) (int, error) {
	if u.remote == nil {
		return 0, &OpError{Op: "write", Net: "udp", Err: errors.New("not connected")}
	}
	return u.WriteToUDP(b, u.remote)
}
func (u *UDPConn) ReadFrom(b []byte) (int, stdnet.Addr, error) {
	n, a, err := u.ReadFromUDP(b)
	return n, a, err
}
func (u *UDPConn) WriteTo(b []byte, a stdnet.Addr) (int, error) {
	ua, ok := a.(*UDPAddr)
	if !ok {
		return 0, errors.New("simnet: not a UDP address")
	}
	return u.WriteToUDP(b, ua)
}
func (u *UDPConn) Close() error {
	if u.dummy {
		return nil
	}
	simrt.Yield(siteClose)
	u.mu.Lock()
	if u.closed {
		u.mu.Unlock()
		return &OpError{Op: "close", Net: "udp", Err: ErrClosed}
	}
	u.closed = true
	u.broadcastLocked()
	u.mu.Unlock()
	w.mu.Lock()
	delete(w.udp, u.key)
	w.mu.Unlock()
	return nil
}
func (u *UDPConn) LocalAddr() stdnet.Addr { return u.addr }
func (u *UDPConn) RemoteAddr() stdnet.Addr {
	if u.remote == nil {
		return nil
	}
	return u.remote
}
func (u *UDPConn) SetDeadline(t time.Time) error      { return u.SetReadDeadline(t) }
func (u *UDPConn) SetWriteDeadline(t time.Time) error { return nil }
func (u *UDPConn) SetReadDeadline(t time.Time) error {
	u.mu.Lock()
	defer u.mu.Unlock()
	u.rdl = t
	if u.rdlT != nil {
		u.rdlT.Stop()
		u.rdlT = nil
	}
	if !t.IsZero() {
		d := time.Until(t)
		if d <= 0 {
			u.broadcastLocked()
			return nil
		}
		u.rdlT = time.AfterFunc(d, func() { u.mu.Lock(); u.broadcastLocked(); u.mu.Unlock() })
	}
	return nil
}
func (u *UDPConn) SetReadBuffer(int) error  { return nil }
func (u *UDPConn) SetWriteBuffer(int) error { return nil }

// String helpers for reports.
func (pr *ConnPair) String() string {
	return fmt.Sprintf("conn#%d %s->%s", pr.ID, pr.Client.local.s, pr.Addr)
}
