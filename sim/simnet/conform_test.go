package simnet_test

// Conformance self-check: one script of socket operations is executed against
// real loopback TCP (package net, outside any bubble) and against simnet
// (inside a synctest bubble under the simrt scheduler); the classified outcomes
// must be identical. This is the contract the transport code of TarsGo relies
// on (it switches on these error kinds).

import (
	"errors"
	"fmt"
	"io"
	"net"
	"os"
	"strings"
	"syscall"
	"testing"
	"testing/synctest"
	"time"

	"verifsim/simnet"
	"verifsim/simrt"
	"verifsim/tape"
)

type api struct {
	listen func() (net.Listener, string, error)
	dial   func(addr string) (net.Conn, error)
	sleep  func(d time.Duration)
	gof    func(f func())
	nilDL  func() error
	refuse func() (net.Conn, error)
}

func classify(err error) string {
	switch {
	case err == nil:
		return "nil"
	case err == io.EOF:
		return "EOF"
	}
	var parts []string
	if errors.Is(err, net.ErrClosed) {
		parts = append(parts, "closed")
		if err == net.ErrClosed {
			parts = append(parts, "identical-to-ErrClosed")
		}
	}
	if errors.Is(err, syscall.ECONNRESET) {
		parts = append(parts, "ECONNRESET")
	}
	if errors.Is(err, syscall.EPIPE) {
		parts = append(parts, "EPIPE")
	}
	if errors.Is(err, syscall.ECONNREFUSED) {
		parts = append(parts, "ECONNREFUSED")
	}
	if errors.Is(err, syscall.EINVAL) {
		parts = append(parts, "EINVAL")
	}
	if errors.Is(err, os.ErrDeadlineExceeded) {
		parts = append(parts, "deadline")
	}
	if ne, ok := err.(net.Error); ok {
		parts = append(parts, fmt.Sprintf("Timeout=%v,Temporary=%v", ne.Timeout(), ne.Temporary()))
	}
	if _, ok := err.(*net.OpError); ok {
		parts = append(parts, "OpError")
	}
	if len(parts) == 0 {
		return "other:" + err.Error()
	}
	return strings.Join(parts, "+")
}

// script returns the list of observations.
func script(a api) []string {
	var out []string
	obs := func(name string, n int, err error) { out = append(out, fmt.Sprintf("%s: n=%d %s", name, n, classify(err))) }
	pair := func() (net.Conn, net.Conn, net.Listener) {
		l, addr, err := a.listen()
		if err != nil {
			panic(err)
		}
		c, err := a.dial(addr)
		if err != nil {
			panic(err)
		}
		s, err := l.Accept()
		if err != nil {
			panic(err)
		}
		return c, s, l
	}
	buf := make([]byte, 64)
	// 1. orderly close, no data
	{
		c, s, l := pair()
		s.Close()
		a.sleep(50 * time.Millisecond)
		n, err := c.Read(buf)
		obs("read after orderly peer close", n, err)
		n, err = c.Read(buf)
		obs("second read after orderly peer close", n, err)
		c.Close()
		l.Close()
	}
	// 2. data pending, then EOF
	{
		c, s, l := pair()
		s.Write([]byte("abc"))
		s.Close()
		a.sleep(50 * time.Millisecond)
		n, err := c.Read(buf)
		obs("read with data pending and peer closed", n, err)
		n, err = c.Read(buf)
		obs("read after the pending data", n, err)
		c.Close()
		l.Close()
	}
	// 3. writes after the peer closed
	{
		c, s, l := pair()
		s.Close()
		a.sleep(50 * time.Millisecond)
		n, err := c.Write([]byte("x"))
		obs("first write after peer closed", n, err)
		a.sleep(50 * time.Millisecond)
		n, err = c.Write([]byte("y"))
		obs("second write after peer closed", n, err)
		c.Close()
		l.Close()
	}
	// 4. peer closes with unread data in its receive queue
	{
		c, s, l := pair()
		c.Write([]byte("unread"))
		a.sleep(50 * time.Millisecond)
		s.Close()
		a.sleep(50 * time.Millisecond)
		n, err := c.Read(buf)
		obs("read after peer closed with unread data", n, err)
		c.Close()
		l.Close()
	}
	// 5. blocked read, own side closed by another goroutine
	{
		c, s, l := pair()
		done := make(chan string, 1)
		a.gof(func() {
			n, err := c.Read(buf)
			done <- fmt.Sprintf("blocked read, own side closed meanwhile: n=%d %s", n, classify(err))
		})
		a.sleep(50 * time.Millisecond)
		c.Close()
		out = append(out, <-done)
		n, err := c.Read(buf)
		obs("read after own close", n, err)
		n, err = c.Write([]byte("z"))
		obs("write after own close", n, err)
		obs("SetReadDeadline after own close", 0, c.SetReadDeadline(time.Now().Add(time.Second)))
		obs("close after own close", 0, c.Close())
		s.Close()
		l.Close()
	}
	// 6. read deadline
	{
		c, s, l := pair()
		c.SetReadDeadline(time.Now().Add(30 * time.Millisecond))
		n, err := c.Read(buf)
		obs("read deadline reached", n, err)
		n, err = c.Read(buf)
		obs("read again with the same deadline", n, err)
		s.Write([]byte("late"))
		a.sleep(50 * time.Millisecond)
		n, err = c.Read(buf)
		obs("deadline in the past with data pending", n, err)
		c.SetReadDeadline(time.Time{})
		n, err = c.Read(buf)
		obs("read after clearing the deadline", n, err)
		c.Close()
		s.Close()
		l.Close()
	}
	// 7. listener
	{
		l, _, _ := a.listen()
		if tl, ok := l.(interface{ SetDeadline(time.Time) error }); ok {
			tl.SetDeadline(time.Now().Add(30 * time.Millisecond))
			_, err := l.Accept()
			obs("accept deadline reached", 0, err)
		}
		l.Close()
		_, err := l.Accept()
		obs("accept after listener close", 0, err)
		obs("close listener twice", 0, l.Close())
	}
	// 8. nobody listens
	{
		_, err := a.refuse()
		obs("dial to a port nobody listens on", 0, err)
	}
	obs("nil listener SetDeadline", 0, a.nilDL())
	return out
}

func realAPI() api {
	return api{
		listen: func() (net.Listener, string, error) {
			l, err := net.Listen("tcp", "127.0.0.1:0")
			if err != nil {
				return nil, "", err
			}
			return l, l.Addr().String(), nil
		},
		dial:  func(addr string) (net.Conn, error) { return net.DialTimeout("tcp", addr, time.Second) },
		sleep: time.Sleep,
		gof:   func(f func()) { go f() },
		nilDL: func() error { return (*net.TCPListener)(nil).SetDeadline(time.Now()) },
		refuse: func() (net.Conn, error) {
			l, _ := net.Listen("tcp", "127.0.0.1:0")
			addr := l.Addr().String()
			l.Close()
			return net.DialTimeout("tcp", addr, time.Second)
		},
	}
}

var port = 5000

func simAPI() api {
	return api{
		listen: func() (net.Listener, string, error) {
			port++
			addr := fmt.Sprintf("10.9.9.9:%d", port)
			l, err := simnet.Listen("tcp", addr)
			return l, addr, err
		},
		dial:  func(addr string) (net.Conn, error) { return simnet.DialTimeout("tcp", addr, time.Second) },
		sleep: simrt.Sleep,
		gof:   simrt.Go,
		nilDL: func() error { return (*simnet.TCPListener)(nil).SetDeadline(time.Now()) },
		refuse: func() (net.Conn, error) {
			return simnet.DialTimeout("tcp", "10.9.9.9:1", time.Second)
		},
	}
}

func TestConformance(t *testing.T) {
	if _, err := net.Listen("tcp", "127.0.0.1:0"); err != nil {
		t.Skip("loopback TCP unavailable in this sandbox:", err)
	}
	realOut := script(realAPI())
	var simOut []string
	synctest.Test(t, func(t *testing.T) {
		simrt.Run(simrt.Config{Tape: tape.NewReplay(nil, 1, true), SimLimit: time.Hour}, func() { simOut = script(simAPI()) })
		diffs := 0
		for i := range realOut {
			s := "<missing>"
			if i < len(simOut) {
				s = simOut[i]
			}
			mark := "  "
			if s != realOut[i] {
				mark = "!!"
				diffs++
			}
			fmt.Printf("%s real: %-95s\n   sim:  %s\n", mark, realOut[i], s)
		}
		if diffs > 0 || len(simOut) != len(realOut) {
			t.Errorf("CONFORMANCE: %d of %d observations differ", diffs, len(realOut))
			return
		}
		fmt.Printf("CONFORMANCE: %d observations identical on real loopback TCP and simnet\n", len(realOut))
	})
}
