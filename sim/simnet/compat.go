package simnet

// The rest of package net's surface that code under test may reasonably use once its import has
// been pointed here: pure helpers are passed through, TLS dialling is done over simulated connections.

import (
	"context"
	"crypto/tls"
	stdnet "net"
	"time"

	"verifsim/simrt"
)

type (
	IPNet               = stdnet.IPNet
	IPMask              = stdnet.IPMask
	AddrError           = stdnet.AddrError
	InvalidAddrError    = stdnet.InvalidAddrError
	UnknownNetworkError = stdnet.UnknownNetworkError
	DNSError            = stdnet.DNSError
	ParseError          = stdnet.ParseError
	PacketConn          = stdnet.PacketConn
	HardwareAddr        = stdnet.HardwareAddr
)

const (
	IPv4len = stdnet.IPv4len
	IPv6len = stdnet.IPv6len
)

func SplitHostPort(hostport string) (string, string, error) { return stdnet.SplitHostPort(hostport) }
func JoinHostPort(host, port string) string                 { return stdnet.JoinHostPort(host, port) }
func ParseIP(s string) IP                                   { return stdnet.ParseIP(s) }
func ParseCIDR(s string) (IP, *IPNet, error)                { return stdnet.ParseCIDR(s) }
func IPv4(a, b, c, d byte) IP                               { return stdnet.IPv4(a, b, c, d) }
func IPv4Mask(a, b, c, d byte) IPMask                       { return stdnet.IPv4Mask(a, b, c, d) }
func CIDRMask(ones, bits int) IPMask                        { return stdnet.CIDRMask(ones, bits) }
func ResolveTCPAddr(network, address string) (*TCPAddr, error) {
	return stdnet.ResolveTCPAddr(network, address)
}

// TLSDialWithDialer is what tls.DialWithDialer is rewritten to in the packages whose net import
// points here: it connects over the simulated network and, like the original, bounds the
// connect *and* the handshake together by the dialer's time-out.
func TLSDialWithDialer(dialer *Dialer, network, addr string, config *tls.Config) (*tls.Conn, error) {
	timeout := dialer.Timeout
	start := time.Now()
	raw, err := DialTimeout(network, addr, timeout)
	if err != nil {
		return nil, err
	}
	if config == nil {
		config = &tls.Config{}
	}
	if config.ServerName == "" {
		host, _, _ := stdnet.SplitHostPort(addr)
		config = config.Clone()
		config.ServerName = host
	}
	conn := tls.Client(raw, config)
	// The original bounds connect and handshake together with a context; crypto/tls then starts a
	// goroutine of its own that closes the connection when the context ends, and a goroutine the
	// scheduler has not named gets its name by arrival, which does not replay when several
	// handshakes time out in the same instant. A deadline on the connection bounds the handshake
	// at the same instant without that goroutine.
	if timeout > 0 {
		raw.SetDeadline(start.Add(timeout))
	}
	if err := conn.HandshakeContext(context.Background()); err != nil {
		raw.Close()
		simrt.Mark()
		return nil, err
	}
	raw.SetDeadline(time.Time{})
	return conn, nil
}
