#!/usr/bin/env python3
"""Writes /verif/MANIFEST.json (kept as a script so that the per-property
entries stay uniform). Run after adding or removing a check."""
import json, os

HERE = os.path.dirname(os.path.abspath(__file__))

TECH = "deterministic simulation with fault injection: seeded search over schedules, timings and faults (one-at-a-time scheduler in a testing/synctest bubble, in-memory network, tape-minimised replay)"

TRUST = ("Trusted base: the AST instrumenter and simrt scheduler (syntactic rewrites of the working-tree sources: yields, lock/once/select/go wrappers), "
         "testing/synctest of go1.26.8 for the fake clock, the simnet model of TCP/UDP socket behaviour, the harness oracles. "
         "Sampling, not enumeration: a clean batch is evidence, not proof. Standard library, codec and generated code are atomic to the scheduler.")

CLAIMED = {
    "C14": ("5/C14", "Selector level: two real selector instances driven by different tape-drawn add/remove/refresh histories to the same set are compared with each other and with an independently built Ketama ring / mod-hash slot model on ring points, their +-1 neighbours, 0, MaxUint32 and random codes, followed by removal and addition of one endpoint (only codes of the removed endpoint move; codes move only onto the added one). "
            "Cluster level (what makes this a simulation target): hash-routed calls through the real client stack while scripted servers fail and recover and the manager removes and reinstates endpoints concurrently; each call is compared with the reference applied to the rotation at selection time."),
    "C15": ("5/C15", "Seeded search over per-server fault timelines (silent, refusing, recovering; phases of 2-100s straddling the 5-failure, 5s, 30s and 60s thresholds), call intervals, time-outs, status-check periods and schedules, 100-300 simulated seconds per run with the real endpointManager, status-check and refresh loops, adapters and transport against 2-5 scripted servers behind a scripted registry; "
            "oracles over the recorded history (rotation snapshots at every call and 4x per simulated second, arrivals per server, outcome per call): no removal with fewer than two failures since (re)instatement, >=5 consecutive failures over >=5s imply removal after the next status check while another endpoint is active, probes at most every 30s (tolerance: 1s granularity + one call gap), answered probe => back in rotation, unanswered => stays out, calls are still attempted when everything is blocked."),
    "C13": ("5/C13", "Seeded search over interleavings (statement granularity) of 1-3 selecting and 1-2 updating goroutines on the real selectors (round-robin, random, mod-hash, consistent-hash; weighted and not) over weight vectors including zero and negative weights; "
            "the recorded invoke/return history is checked with porcupine against the model 'Select returns a member of the current set, or an error only if no endpoint is eligible', any panic is a violation; a sequential phase checks strict rotation by host and the exact composition of one weighted cycle, max(1, floor(W_i*R/W_max)), on a set reached through a drawn history."),
    "C11": ("5/C11", "Seeded search over the points at which a scripted server (which answers every request it reads) closes connections - after any response, when idle, after a reconnect notification, by crash+restart - x gaps between close and next call (0ms-2.5s, straddling the sender's 1s poll) x interleavings of callers, sender and receiver goroutines of the real client; "
            "oracles: a call issued after the client observed the close (its Read returned EOF) succeeds in far less than its time-out, no request is written to a connection the client closed at an earlier instant, no new dial while the latest connection is healthy."),
    "C12": ("5/C12", "Seeded search over the instant of Shutdown relative to in-flight, queued and still-arriving requests x handler durations x pool sizes (0 and N, checked separately) x queue capacities x context time-outs x interleavings of accept loop, receive loops, handlers, pool dispatcher and the shutdown poller, with the real TarsServer/tcpHandler/gpool and scripted raw clients; "
            "oracles from the simnet record: every request frame the server completely read is executed and (two-way) answered before the server closes that connection, connected clients get the reconnect notification (id 0) before the close, Shutdown returns only when all connections are closed or its context expired, and within 5 simulated seconds of whichever comes first."),
    "C07": ("5/C07", "Seeded search over partitions of the byte stream (write chunking down to single bytes, cuts inside the 4-byte prefix, coalescing, pauses, read fragmentation, back-pressure) x frame-length sequences (4, 5, around 4096, max-1, max, illegal prefixes) x maximum-length settings x schedules, against the real server receive loop (with and without worker pool) and the real client receive loop with recording protocol layers; "
            "oracle: the packets handed to the protocol layer equal the legal frames written before the first illegal prefix (same bytes, once, in order; multiset under a pool), a frame of exactly the maximum is delivered, an illegal prefix closes that connection only and nothing after it is delivered."),
    "C08": ("5/C08", "Seeded search over interleavings of concurrent callers, the client's sender/receiver goroutines and per-packet Recv goroutines of the real ServantProxy/AdapterProxy/TarsClient against a scripted peer that answers in any order, late, duplicated, with stray ids and id-0 push frames (independent reference codec); "
            "oracle per call: the response's id equals the id of its own request as seen on the wire and the payload is the echo of its own payload, or a timeout error; ids on the wire are never 0; no two concurrently outstanding calls share an id (id counter preset near the wrap in some runs)."),
    "C09": ("5/C09", "Seeded search over peer behaviours (silent, slow, closing at every point of the exchange, resetting, garbage, refusing, black-holed, crash/restart, not reading) x deadlines (proxy, per-call, context) x client time-outs x schedules, with the real client stack; "
            "oracles: every call returns within effective deadline + dial time-out + slack (slack = one time-wheel tick + injected stalls), resource counters (queueLen, pending-reply table, invokeNum) return to their previous values after quiescence, late replies never reach another call; a fault-free variant in which every call must succeed runs separately."),
    "C19": ("5/C19", "Seeded search over interleavings of submitters, dispatcher, workers and Release of the real gpool under a one-at-a-time scheduler; "
            "oracles: exactly-once execution, parallelism high-water mark, submitters blocked only while the queue is full (sampled in quiescent states), "
            "Release of an idle pool returns, Release returns only after running jobs finished, no job starts after it. Exploration is the right level: the property quantifies over schedules, which are sampled, replayable and minimised."),
    "C20": ("5/C20", "Seeded search over interleavings of logging goroutines, the real flusher (recreated inside the bubble) and FlushLogger / the CheckPanic exit path, including the tape-decided case order of every select; "
            "oracle over the recording writer: every entry whose logging call returned before the flush request is written exactly once when the flush returns, per-goroutine order, one undivided write per entry."),
}

NA = {
    "C02": "pure function of (type, tag, value): no goroutine, clock, connection, peer or fault in the statement; deciding it is input generation against a reference, not simulation (DESIGN.md section 6)",
    "C03": "pure function of (schema, value): nothing a simulator controls can change the outcome (DESIGN.md section 6)",
    "C04": "pure function of the byte string and the schema (DESIGN.md section 6)",
    "C05": "pure function of the byte string; its closing sentence about processes is a corollary of the pure statement. Garbage from a peer is injected in C09 only as a peer behaviour (DESIGN.md section 6)",
    "C06": "pure function of the byte string: the truncation is of a buffer handed to a decoder, not of a stream read over time (that part is C07) (DESIGN.md section 6)",
    "C16": "batch compiler run: single-threaded, no scheduling, timing or I/O fault in the statement; the generator is nevertheless run from the working tree by the C01/C10 harness (DESIGN.md section 6)",
    "C17": "pure function of the configuration document (DESIGN.md section 6)",
    "C18": "pure function of the endpoint string (DESIGN.md section 6)",
}

PENDING = {}

def main():
    props = [json.loads(l) for l in open(os.path.join(HERE, "properties.jsonl"))]
    checks = []
    for p in props:
        pid = p["id"]
        if pid in CLAIMED:
            ref, text = CLAIMED[pid]
            checks.append({
                "property_id": pid,
                "quick_cmd": "./bin/vsim check %s --tier quick" % pid,
                "thorough_cmd": "./bin/vsim check %s --tier thorough" % pid,
                "evidence_file": "/verif/evidence/%s.json" % pid,
                "replay_cmd_template": "./bin/vsim replay {path}",
                "engine": "vsim",
                "level_claimed": {"category": "exploration", "text": text, "design_ref": "DESIGN.md section " + ref},
                "level_note": TRUST,
                "technique": TECH,
            })
    na = []
    for p in props:
        pid = p["id"]
        if pid in CLAIMED:
            continue
        if pid in NA:
            na.append({"property_id": pid, "reason": "not applicable to deterministic simulation: " + NA[pid]})
        else:
            na.append({"property_id": pid, "reason": PENDING.get(pid, "simulation target (DESIGN.md section 5) whose check is not registered yet: the scenario is still being built in this session; not claimed until it runs clean and is shown sensitive")})
    m = {
        "version": 1,
        "setup_cmd": "./setup.sh",
        "hooks": {
            "guard": "none needed: no hook is committed to /repo; seams are added at check time by `go build -overlay` (instrumented copies under /verif/.build), so with the overlay absent the tree is byte-for-byte what is committed",
            "enable": "vsim instruments the working tree of /repo (AST rewrite into /verif/.build/<id>/inst) and builds the harness with go1.26.8 test -c -overlay",
            "baseline_off_cmd": "./baseline.sh",
            "source_commits": [],
            "add_only": True,
        },
        "engines": [{
            "name": "vsim",
            "path": "/verif/sim",
            "serves_properties": sorted(CLAIMED.keys()),
            "kind_free_text": "deterministic simulator: AST instrumenter + seeded scheduler (simrt) + in-memory network (simnet) + tape/minimiser/replay + per-property scenarios and oracles",
        }],
        "checks": checks,
        "not_applicable": na,
        "notes": "All checks honour VERIF_SEED and VERIF_TIER, rebuild from /repo's working tree on every invocation, run offline, and keep nothing under /tmp. "
                 "Exit 0 = held on everything explored; 1 = VIOLATION line with a replay file; 2 = build or harness trouble (never a violation). "
                 "Genuine defects found so far are listed in /verif/KNOWN_FINDINGS.txt (fixed: lines document /repo fix commits; known: lines suppress exactly one violation class).",
    }
    with open(os.path.join(HERE, "MANIFEST.json"), "w") as f:
        json.dump(m, f, indent=1)
        f.write("\n")

if __name__ == "__main__":
    main()
